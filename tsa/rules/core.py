"""Obligations on the transaction core (manager / schedulers / tmodule / method / body).

Each function discharges one link of a mechanism named in the anchors of
C01-C13; the property modules select the links they rely on.
"""

from __future__ import annotations

from ..front import AnalysisError
from ..logic import (
    atoms_of,
    conjuncts,
    equivalent,
    f_and,
    f_not,
    f_or,
    fstr,
    implies,
    lin_equal,
    to_formula,
    vstr,
)
from ..pm import find_all, has, pat, pmatch, pmatch_all
from ..pyfacts import Fn, cname, is_call_to, loop_iters, loops, py_guard
from ..report import Ctx
from ..stage import BodyDef, Effect, HwAssign, Jump, MethodCall, Raise, Relation, Return, Store, Submodule
from ..term import Term, mentions, subterms, tstr

MANAGER = "transactron/core/manager.py"
SCHED = "transactron/core/schedulers.py"
TMODULE = "transactron/core/tmodule.py"
METHOD = "transactron/core/method.py"
BODY = "transactron/core/body.py"
TRANSACTION = "transactron/core/transaction.py"
TBASE = "transactron/core/transaction_base.py"
SUGAR = "transactron/core/sugar.py"

A = lambda t: ("atom", t)  # noqa: E731


def _fn(ctx: Ctx, rel: str, qual: str, rule: str, enter: tuple = ()) -> Fn:
    ctx.use(rel)
    key = ("fn", rel, qual, enter)
    cache = ctx.__dict__.setdefault("_fn_cache", {})
    if key not in cache:
        cache[key] = Fn(ctx.repo, rel, qual, rule, enter=enter)
    return cache[key]


# ---------------------------------------------------------------------------
# conflict graph construction


def _cg(ctx: Ctx, rule: str):
    """Roles in `_conflict_graph`: (fn, cgr object, pgr object, porder object)."""
    fn = _fn(ctx, MANAGER, "TransactionManager._conflict_graph", rule)
    rets = fn.only(Return, lambda r: r.callid is None and not loops(r), rule, "final return")
    cgr = porder = None
    for ex, r in rets:
        v = r.value
        if v[0] == "tuple" and len(v) == 3:
            cgr, porder = v[1], v[2]
    if cgr is None or cgr[0] != "obj":
        raise AnalysisError(rule, fn.site, "_conflict_graph does not return (conflict graph, order) built locally")
    # pgr: the graph handed to the topological sort
    pgr = None
    for ex in fn.exs:
        for t in list(ex.vardefs.values()) + [s.value for s in ex.of(Store)] + [x for s in ex.of(Store) for x in loop_iters(s)]:
            for m in find_all("networkx.lexicographical_topological_sort(Q_g, key=Q_k)", t):
                g = m["g"]
                for s in subterms(g):
                    if s[0] == "obj":
                        pgr = s
                ctx.__dict__["_topo_arg"] = g
                ctx.__dict__["_topo_key"] = (ex, m["k"])
    if pgr is None:
        # the conflict graph is still built here, but the order is no longer a topological sort of a priority graph
        ctx.bad(rule.split(".")[0] + ".priority-order-is-toposort", fn.site, "_conflict_graph.order",
                found="no networkx.lexicographical_topological_sort over a locally built priority graph",
                required="the priority order is a topological sort of the priority graph (cycles are rejected by the sort)")
        ctx.__dict__["_topo_arg"] = ("c", None)
    return fn, cgr, pgr, porder


def _edge_inserts(fn: Fn, graph: Term):
    """Effects graph[x].add(y)."""
    out = []
    for ex, e in fn.facts(Effect):
        m = pmatch("Q_g[Q_x].add(Q_y)", e.call)
        if m and m["g"] == graph:
            out.append((ex, e, m["x"], m["y"]))
    return out


def cg_symmetric_insertion(ctx: Ctx, pid: str):
    """C01.g: every conflict edge is inserted in both directions under the same guard."""
    rule = f"{pid}.symmetric-insertion"
    fn, cgr, pgr, _ = _cg(ctx, rule)
    ins = _edge_inserts(fn, cgr)
    ctx.floor(rule, "conflict edge insertions", len(ins), 2, fn.site)
    seen = set()
    for ex, e, x, y in ins:
        key = (x, y, e.frames)
        if key in seen:
            continue
        seen.add(key)
        mirror = any(x2 == y and y2 == x and e2.frames == e.frames for _, e2, x2, y2 in ins)
        ctx.check(mirror, rule, e.site, f"_conflict_graph.cgr.add[{cname(x, y)}]@{len(loops(e))}loops",
                  found="mirror insertion " + ("present" if mirror else "missing"),
                  required="cgr[a].add(b) and cgr[b].add(a) under the same guard (undirected conflict graph)")


def _implicit_loop_inserts(fn: Fn, cgr: Term):
    """Insertions reached under a loop over the methods (the implicit-conflict site)."""
    out = []
    for ex, e, x, y in _edge_inserts(fn, cgr):
        its = loop_iters(e)
        if len(its) == 3 and has("Q_mm.methods", its[0]) and not has("Q_mm.methods_and_transactions", its[0]):
            out.append((ex, e, x, y))
    return out


def mm_transactions_for(ctx: Ctx, pid: str):
    """MethodMap.transactions_for lifts a body to the transactions that reach it: a method to transactions_by_method[it],
    a transaction to itself.  Every lifting of conflicts, relations and simultaneity goes through it."""
    rule = f"{pid}.transactions-for"
    if ctx.__dict__.setdefault("_tf_done", set()) & {pid}:
        return
    ctx.__dict__["_tf_done"].add(pid)
    fn = _fn(ctx, MANAGER, "MethodMap.transactions_for", rule)
    elem = fn.param(1)
    rets = fn.only(Return, lambda r: r.callid is None, rule, "return")
    is_method = None
    ok_m = ok_t = False
    for ex, r in rets:
        g = py_guard(r)
        v = r.value
        mm = pmatch("self.transactions_by_method[Q_k]", v)
        if mm is not None and (mm["k"] == elem or pmatch("MBody(Q_e)", mm["k"]) == {"e": elem}):
            ats = atoms_of(g)
            if len(ats) == 1 and pmatch("Q_e in self.transactions_by_method", ats[0]) == {"e": elem} and equivalent(g, A(ats[0])) is None:
                ok_m, is_method = True, A(ats[0])
    for ex, r in rets:
        v = r.value
        if v in (("list", elem), ("list", ("call", ("n", "TBody"), (elem,), ()))):
            # the path condition (which sees an early `return` of the method arm: guard-clause spelling) or the enclosing tests
            ok_t = is_method is not None and (equivalent(py_guard(r), f_not(is_method)) is None
                                              or equivalent(fn.reach(Return, lambda x, r=r: x.value == r.value and x.frames == r.frames and x.callid is None), f_not(is_method)) is None)
    ctx.check(ok_m and ok_t, rule, fn.site, "MethodMap.transactions_for", found="; ".join(f"{tstr(r.value)} if {fstr(py_guard(r))}" for _, r in rets),
              required="transactions_by_method[body] if the body is a method (a key of that map), [body] otherwise")


def cg_implicit_edges(ctx: Ctx, pid: str):
    """C01.e/f: implicit conflict edges for every pair of distinct transactions calling the same method,
    unless every pair of their calls is exempt (nonexclusive outermost common ancestor or exclusive call paths)."""
    mm_transactions_for(ctx, pid)
    rule = f"{pid}.implicit-edges"
    fn, cgr, pgr, _ = _cg(ctx, rule)
    ins = _implicit_loop_inserts(fn, cgr)
    ctx.floor(rule, "implicit edge insertions", len(ins), 1, fn.site)
    for ex, e, x, y in ins:
        (bm,), it_m = loops(e)[0]
        (b1,), it1 = loops(e)[1]
        (b2,), it2 = loops(e)[2]
        cons = f"_conflict_graph.implicit[{cname(x, y)}]"
        # F-LOOP: domain = methods x transactions_for(method)^2
        ok_dom = pmatch("Q_mm.transactions_for(Q_m)", it1) is not None and it1 == it2 and pmatch("Q_mm.transactions_for(Q_m)", it1)["m"] == bm
        ctx.check(ok_dom, rule + ".domain", e.site, cons, found=f"for {tstr(it_m)} / {tstr(it1)} / {tstr(it2)}",
                  required="all methods x all pairs of transactions_for(that method)")
        ctx.check({x, y} == {b1, b2}, rule + ".endpoints", e.site, cons, found=f"{tstr(x)},{tstr(y)}",
                  required="edge joins the two iterated transactions")
        # F-IMPL: guard == (t1 is not t2) and not exempt(t1, t2, m)
        g = py_guard(e)
        same = A(pat_is(b1, b2))
        exempt_atoms = [a for a in atoms_of(g) if a != same[1]]
        if len(exempt_atoms) != 1:
            ctx.bad(rule + ".guard", e.site, cons, found=fstr(g), required="(t1 is not t2) and not calls_nonexclusive(t1, t2, method)")
            continue
        ex_atom = exempt_atoms[0]
        want = f_and(f_not(same), f_not(A(ex_atom)))
        cex = equivalent(g, want)
        ctx.check(cex is None, rule + ".guard", e.site, cons, found=fstr(g),
                  required="(t1 is not t2) and not <exemption predicate>")
        _exemption_predicate(ctx, pid, e.site, ex_atom, b1, b2, bm)


def pat_is(a: Term, b: Term) -> Term:
    from ..term import mk_op

    return mk_op("is", a, b)


def contains_attr(t: Term, name: str) -> bool:
    return any(isinstance(s, tuple) and len(s) == 3 and s[0] == "a" and s[2] == name for s in subterms(t))


def _exemption_predicate(ctx: Ctx, pid: str, site: str, t: Term, t1: Term, t2: Term, meth: Term):
    """C01.f: all(... for call1 in info[(t1, m)] for call2 in info[(t2, m)]) with elt
    nonexclusive(last common ancestor) or call_paths_exclusive(call1.call_path, call2.call_path)."""
    rule = f"{pid}.exemption"
    cons = "_conflict_graph.calls_nonexclusive"
    m = pmatch("all(Q_gen)", t)
    ctx.check(m is not None and m["gen"][0] == "lc", rule + ".universal", site, cons, found=tstr(t)[:200],
              required="all(...) over every pair of calls (any() would exempt pairs with one exclusive sighting)")
    if m is None or m["gen"][0] != "lc":
        return
    _, kind, elt, gens = m["gen"]
    ok_gens = len(gens) == 2
    c1 = c2 = None
    if ok_gens:
        (c1, it_a, conds_a), (c2, it_b, conds_b) = gens
        ma = pmatch("Q_mm.info_by_call[(Q_t, Q_m)]", it_a)
        mb = pmatch("Q_mm.info_by_call[(Q_t, Q_m)]", it_b)
        ok_gens = bool(ma and mb and {ma["t"], mb["t"]} == {t1, t2} and ma["m"] == meth and mb["m"] == meth)
    ctx.check(ok_gens, rule + ".domain", site, cons, found=" ; ".join(tstr(g[1]) for g in gens),
              required="the calls of the first transaction to this method x the calls of the second transaction to it")
    if not ok_gens:
        return
    # filters may only drop pairs without common ancestor
    filt = [c for g in gens for c in g[2]]
    lcp = pat("longest_common_prefix(Q_a.ancestors, Q_b.ancestors)")
    ok_f = all(pmatch(lcp, c) is not None and {pmatch(lcp, c)["a"], pmatch(lcp, c)["b"]} == {c1, c2} for c in filt)
    ctx.check(ok_f, rule + ".filter", site, cons, found=" ; ".join(tstr(c) for c in filt) or "none",
              required="only pairs without a common ancestor may be skipped")
    f = to_formula(elt)
    ats = atoms_of(f)
    # The two calls are the same call of a nonexclusive method N exactly when N occurs in BOTH ancestor chains: N's body runs
    # once whoever calls it, and its own call tree is validated as a root, so `method` is reached at most once below it.
    # The chains may part below N and meet again in it (F23), so the test is existential over the shared ancestors; a test
    # of one element of the common prefix misses that case.
    nonex = [a for a in ats if pmatch("Q_x.nonexclusive", a) or (pmatch("any(Q_g)", a) and contains_attr(a, "nonexclusive"))]
    excl = [a for a in ats if pmatch("call_paths_exclusive(Q_p, Q_q)", a)]
    ok_shape = len(nonex) == 1 and len(excl) == 1 and equivalent(f, f_or(A(nonex[0]), A(excl[0]))) is None
    ctx.check(ok_shape, rule + ".pair-predicate", site, cons, found=fstr(f),
              required="nonexclusive(some common ancestor) or call_paths_exclusive(path1, path2)")
    if not ok_shape:
        return
    ok_anc = False
    mg = pmatch("any(Q_g)", nonex[0])
    if mg is not None and mg["g"][0] == "lc" and len(mg["g"][3]) == 1:
        _, _, elt_a, ((ba, it_anc, conds_anc),) = mg["g"]
        mi = pmatch("Q_c.ancestors", it_anc)
        mc = [pmatch("Q_x in Q_c.ancestors", c) for c in conds_anc]
        ok_anc = (elt_a == ("a", ba, "nonexclusive") and mi is not None and len(mc) == 1 and mc[0] is not None and mc[0]["x"] == ba
                  and {mi["c"], mc[0]["c"]} == {c1, c2})
    if pid != "C07" and not ok_anc:
        # safety properties only need "exempt ONLY IF a shared ancestor is nonexclusive"; an element of the common prefix is one
        ma = pmatch("longest_common_prefix(Q_a.ancestors, Q_b.ancestors)[Q_k].nonexclusive", nonex[0])
        ok_anc = ma is not None and {ma["a"], ma["b"]} == {c1, c2}
    ctx.check(ok_anc, rule + ".ancestor", site, cons, found=tstr(nonex[0]),
              required="some method occurring in the ancestor chains of both calls is nonexclusive: any(a.nonexclusive for a in "
                       "call1.ancestors if a in call2.ancestors) -- one element of the common prefix does not see chains that part "
                       "below a nonexclusive method and meet again in it")
    mp = pmatch("call_paths_exclusive(Q_p.call_path, Q_q.call_path)", excl[0])
    ctx.check(mp is not None and {mp["p"], mp["q"]} == {c1, c2}, rule + ".paths", site, cons, found=tstr(excl[0]),
              required="the call paths of the same two calls")


def cg_relation_lifting(ctx: Ctx, pid: str):
    """C02.b/c + C07.b: every relation reaches add_edge for all pairs of calling transactions; the conflict flag
    is `relation.conflict and not transactions_exclusive`; edges enter cgr only under that flag."""
    mm_transactions_for(ctx, pid)
    rule = f"{pid}.relation-lifting"
    fn, cgr, pgr, _ = _cg(ctx, rule)
    rel_ins = []
    for ex, e, x, y in _edge_inserts(fn, cgr):
        its = loop_iters(e)
        if len(its) == 3 and not (has("Q_mm.methods", its[0]) and not has("Q_mm.methods_and_transactions", its[0])):
            rel_ins.append((ex, e, x, y))
    ctx.floor(rule, "relation edge insertions", len(rel_ins), 2, fn.site)
    for ex, e, x, y in rel_ins:
        (br,), it_r = loops(e)[0]
        (bs,), it_s = loops(e)[1]
        (be,), it_e = loops(e)[2]
        cons = f"_conflict_graph.relation[{cname(x, y)}]"
        ms = pmatch("Q_mm.transactions_for(Q_r.start)", it_s)
        me = pmatch("Q_mm.transactions_for(Q_r.end)", it_e)
        ok = bool(ms and me and ms["r"] == br and me["r"] == br)
        ctx.check(ok, rule + ".domain", e.site, cons, found=f"{tstr(it_r)} / {tstr(it_s)} / {tstr(it_e)}",
                  required="all relations x transactions_for(start) x transactions_for(end)")
        ctx.check({x, y} == {bs, be}, rule + ".endpoints", e.site, cons, found=f"{tstr(x)},{tstr(y)}",
                  required="edge joins a caller of start with a caller of end")
        g = py_guard(e)
        ats = atoms_of(g)
        confl = [a for a in ats if a == ("a", br, "conflict")]
        exc = [a for a in ats if is_call_to(a, "_transactions_exclusive")]
        ok_g = len(confl) == 1 and len(exc) == 1 and equivalent(g, f_and(A(confl[0]), f_not(A(exc[0])))) is None
        ctx.check(ok_g, rule + ".guard", e.site, cons, found=fstr(g),
                  required="relation.conflict and not transactions_exclusive(caller of start, caller of end)")
        if ok_g:
            a = exc[0]
            args = a[2]
            ctx.check(bs in args and be in args, rule + ".exclusive-args", e.site, cons, found=tstr(a),
                      required="exclusivity is asked for the same two transactions")
    # relations come from _relations(method_map): every relation of every method and transaction
    relfn = _fn(ctx, MANAGER, "TransactionManager._relations", rule)
    rets = relfn.only(Return, lambda r: r.callid is None, rule, "return of _relations")
    for ex, r in rets:
        v = r.value
        ok = v[0] == "lc" and len(v[3]) == 2
        if ok:
            (be_, it1, c1), (brel, it2, c2) = v[3]
            ok = (has("Q_mm.methods_and_transactions", it1) and pmatch("Q_e.relations", it2) is not None
                  and pmatch("Q_e.relations", it2)["e"] == be_)
            conds = list(c1) + list(c2)
            # the only permitted filter prunes relations to bodies outside the map
            ok_f = all(pmatch("Q_r.end in Q_mm.methods_and_transactions", c) is not None for c in conds)
            m = pmatch("Relation(start=Q_s, **dataclass_asdict(Q_r))", v[2])
            ok_elt = m is not None and m["s"] == be_ and m["r"] == brel
            ctx.check(ok and ok_f and ok_elt, rule + ".all-relations", r.site, "TransactionManager._relations", found=tstr(v)[:300],
                      required="Relation(start=elem, **relation) for every relation of every method and transaction (pruning only uncalled ends)")
        else:
            ctx.bad(rule + ".all-relations", r.site, "TransactionManager._relations", found=tstr(v)[:300], required="comprehension over all relations")


def cg_transactions_exclusive(ctx: Ctx, pid: str):
    """C02.c: _transactions_exclusive may return true only from a pair of bodies with exclusive control paths."""
    rule = f"{pid}.transactions-exclusive"
    fn = _fn(ctx, MANAGER, "TransactionManager._transactions_exclusive", rule)
    rets = fn.only(Return, lambda r: r.callid is None, rule, "returns")
    n_true = 0
    for ex, r in rets:
        f = to_formula(r.value)
        if f is False:
            continue
        n_true += 1
        g = py_guard(r)
        ats = atoms_of(g)
        excl = [a for a in ats if pmatch("Q_a.ctrl_path.exclusive_with(Q_b.ctrl_path)", a)]
        ok = f is True and len(excl) == 1 and implies(g, A(excl[0])) is None
        its = loop_iters(r)
        ok_dom = len(its) == 1 and is_call_to(its[0], "product")
        ctx.check(ok and ok_dom, rule, r.site, "_transactions_exclusive.return-true", found=f"return {tstr(r.value)} if {fstr(g)} in {[tstr(i) for i in its]}",
                  required="true only when some (body of t1, body of t2) pair has exclusive control paths")
        if ok and ok_dom:
            prod = its[0]
            okp = all(pmatch("Q_mm.ready_for_transaction(Q_t)", ex.vardef(a) or a) is not None for a in prod[2])
            ctx.check(okp, rule + ".domain", r.site, "_transactions_exclusive.domain", found=tstr(prod) + " with " + ", ".join(tstr(ex.vardef(a) or a) for a in prod[2]),
                      required="product of the bodies that must be ready for each transaction (transaction and called methods)")
    ctx.floor(rule, "true-returning paths", n_true, 1, fn.site)
    ctx.check(any(to_formula(r.value) is False and not loops(r) for _, r in rets), rule + ".default", fn.site, "_transactions_exclusive.default",
              found="; ".join(tstr(r.value) for _, r in rets), required="default result is False")


def cg_priority_edges(ctx: Ctx, pid: str):
    """C08.a: orientation parity of priority edges -> topological order -> numbering."""
    rule = f"{pid}.priority-parity"
    fn, cgr, pgr, porder = _cg(ctx, rule)
    if pgr is None:
        return
    ins = _edge_inserts(fn, pgr)
    ctx.analysed[f"{rule}:priority edge insertions"] = len(ins)
    if len(ins) < 2:
        # add_edge exists (it inserts the conflict edges) but relations no longer produce priority edges
        ctx.bad(rule, fn.site, "_conflict_graph.pgr", found=f"{len(ins)} priority edge insertion(s) reachable from the relation loop",
                required="both Priority.LEFT and Priority.RIGHT relations insert a priority edge")
        return
    # orientation: +1 if pgr[high].add(low) i.e. edge high -> low
    orient = {}
    for ex, e, x, y in ins:
        g = py_guard(e)
        (br,), _ = loops(e)[0]
        (bs,), _ = loops(e)[1]
        (be,), _ = loops(e)[2]
        for prio in ("LEFT", "RIGHT"):
            atom = ("match", ("a", br, "priority"), ("a", ("n", "Priority"), prio))
            if implies(g, A(atom)) is None:
                hi, lo = (bs, be) if prio == "LEFT" else (be, bs)
                if (x, y) == (hi, lo):
                    orient[prio] = +1
                elif (x, y) == (lo, hi):
                    orient[prio] = -1
                else:
                    orient[prio] = 0
                orient[prio + "_site"] = e.site
    cons = "_conflict_graph.pgr"
    if "LEFT" not in orient or "RIGHT" not in orient:
        ctx.bad(rule, fn.site, cons, found=str({k: v for k, v in orient.items() if not k.endswith('_site')}),
                required="both Priority.LEFT and Priority.RIGHT insert a priority edge between the caller pair")
        return
    ctx.check(orient["LEFT"] == orient["RIGHT"] != 0, rule + ".consistent", orient["LEFT_site"], cons,
              found=f"LEFT edge orientation {orient['LEFT']}, RIGHT {orient['RIGHT']} (+1: high->low)",
              required="LEFT and RIGHT orient the edge consistently w.r.t. the prioritised side")
    o = orient["LEFT"]
    # graph handed to the sort: count reversals
    g = ctx.__dict__["_topo_arg"]
    nrev = 0
    cur = g
    while True:
        m = pmatch("Q_x.reverse()", cur)
        if m:
            nrev += 1
            cur = m["x"]
            continue
        m = pmatch("networkx.DiGraph(Q_x)", cur)
        if m:
            cur = m["x"]
            continue
        break
    ok_graph = cur == pgr
    ctx.check(ok_graph, rule + ".sorted-graph", fn.site, cons, found=tstr(g), required="the topological sort is taken on the priority graph")
    # after sort: position ascending along topological order => sources first.
    # edge direction in sorted graph: o * (-1)^nrev ; +1 means high -> low => high first.
    eff = o * (-1 if nrev % 2 else 1)
    # numbering: porder[psorted[k]] = k ascending
    stores = [s for _, s in fn.facts(Store) if s.target[0] == "i" and s.target[1] == porder]
    asc = False
    for s in stores:
        lp = loops(s)
        if lp and s.value == lp[-1][0][0] and s.target[2][0] == "i" and s.target[2][2] == s.value:
            asc = True
    ctx.check(asc, rule + ".numbering", stores[0].site if stores else fn.site, "_conflict_graph.porder",
              found="; ".join(f"{tstr(s.target)} = {tstr(s.value)}" for s in stores), required="porder[sorted[k]] = k")
    # scheduler: sorts ascending by porder and blocks on earlier positions
    sched = _fn(ctx, SCHED, "eager_deterministic_cc_scheduler", rule)
    sort_ok = False
    for ex, e in sched.facts(Effect):
        m = pmatch("Q_l.sort(key=Q_k)", e.call)
        if m and m["k"][0] == "lam":
            clo = ex.closures[m["k"][1]]
            body = getattr(clo.node, "body", None)
            import ast as _ast

            if isinstance(clo.node, _ast.Lambda) and isinstance(body, _ast.Subscript):
                argn = clo.node.args.args[0].arg
                if isinstance(body.slice, _ast.Name) and body.slice.id == argn and isinstance(body.value, _ast.Name):
                    pname = body.value.id
                    # the subscripted name must be the scheduler's order parameter
                    params = [a.arg for a in sched.fi.node.args.args]
                    sort_ok = pname in params and params.index(pname) == 3 and not any(k.arg == "reverse" for k in _sort_keywords(sched, e))
    ctx.check(sort_ok, rule + ".scheduler-sort", sched.site, "eager_deterministic_cc_scheduler.sort",
              found="sort by porder ascending " + ("found" if sort_ok else "not found"), required="component sorted ascending by the priority order")
    ctx.check(eff == +1, rule + ".parity", fn.site, "priority chain",
              found=f"edge orientation {o:+d}, {nrev} reversal(s) before the sort => prioritised side comes {'first' if eff == 1 else 'last'}",
              required="higher priority => earlier in the order => blocks the other (schedulers block on earlier positions)")


def _sort_keywords(fn: Fn, e: Effect):
    import ast as _ast

    for n in _ast.walk(fn.fi.node):
        if isinstance(n, _ast.Call) and isinstance(n.func, _ast.Attribute) and n.func.attr == "sort" and n.lineno == int(e.site.split(":")[1]):
            return n.keywords
    return []


def cg_priority_passthrough(ctx: Ctx, pid: str):
    """C08.b: every relation's priority reaches add_edge unchanged; schedule_before = LEFT, conflict=False."""
    rule = f"{pid}.priority-passthrough"
    fn, cgr, pgr, _ = _cg(ctx, rule)
    for ex, e, x, y in (_edge_inserts(fn, pgr) if pgr is not None else []):
        (br,), _ = loops(e)[0]
        g = py_guard(e)
        subj = {a[1] for a in atoms_of(g) if a[0] == "match"}
        ctx.check(subj == {("a", br, "priority")}, rule, e.site, f"_conflict_graph.pgr.add[{cname(x, y)}]",
                  found=", ".join(tstr(s) for s in subj), required="matched on the relation's own priority")
        # priority edges are not conditional on conflict
        others = [a for a in atoms_of(g) if a[0] != "match"]
        ctx.check(not others, rule + ".unconditional", e.site, f"_conflict_graph.pgr.add[{cname(x, y)}].guard",
                  found=fstr(g), required="priority edges are inserted for every relation (also schedule_before, conflict=False)")
    tb = _fn(ctx, TBASE, "TransactionBase.schedule_before", rule)
    effs = tb.only(Effect, lambda e: pmatch("self.relations.append(Q_r)", e.call) is not None, rule, "relation append")
    for ex, e in effs:
        r = pmatch("self.relations.append(Q_r)", e.call)["r"]
        kw = dict(r[3]) if r[0] == "call" else {}
        ok = kw.get("priority") == ("a", ("n", "Priority"), "LEFT") and kw.get("conflict") == ("c", False) and kw.get("end") == tb.param(1)
        ctx.check(ok, rule + ".schedule_before", e.site, "TransactionBase.schedule_before", found=tstr(r),
                  required="RelationBase(end=end, priority=Priority.LEFT, conflict=False, ...)")
        ctx.check(kw.get("ready_dependent") == ("p", tb.fi.qualname, "kw:ready_dependent", "ready_dependent"), rule + ".ready_dependent", e.site,
                  "TransactionBase.schedule_before.ready_dependent", found=tstr(kw.get("ready_dependent", ("c", None))),
                  required="ready_dependent passed through")
    ac = _fn(ctx, TBASE, "TransactionBase.add_conflict", rule)
    effs = ac.only(Effect, lambda e: pmatch("self.relations.append(Q_r)", e.call) is not None, rule, "relation append")
    for ex, e in effs:
        r = pmatch("self.relations.append(Q_r)", e.call)["r"]
        kw = dict(r[3]) if r[0] == "call" else {}
        ok = kw.get("priority") == ac.param(2) and kw.get("conflict") == ("c", True) and kw.get("end") == ac.param(1)
        ctx.check(ok, f"{pid}.add_conflict-record", e.site, "TransactionBase.add_conflict", found=tstr(r),
                  required="RelationBase(end=end, priority=priority, conflict=True, ...)")
    # both record on the receiver on *every* path: TransactionManager.elaborate harvests relations from the defined
    # transactions/methods only, and resolves `end` (not the holder) through `_body`
    for nm, f in (("schedule_before", tb), ("add_conflict", ac)):
        pred = lambda e: pmatch("self.relations.append(Q_r)", e.call) is not None  # noqa: E731
        g = f.reach(Effect, pred)
        gs = [py_guard(e) for _, e in f.facts(Effect, pred)]
        rejected = f_or(*[f_and(f.reach(Raise, lambda x, r=r: x is r), py_guard(r)) for _, r in f.facts(Raise)])
        ok = implies(True, f_or(f_and(g, *gs), rejected)) is None
        ctx.check(ok, f"{pid}.relation-recorded-on-receiver", f.site, f"TransactionBase.{nm}.unconditional", found=f"recorded when {fstr(f_and(g, *gs))}",
                  required=f"{nm} appends the relation to self.relations for every argument value (no path returns or delegates without recording it on the receiver)")


def _dependency_keys(fn, ex, t, depth=0) -> set:
    """Names of the dependency keys a term reads, following self.<attr> stores of the same function."""
    from ..term import subterms

    keys = {s[1][1] for s in subterms(t) if isinstance(s, tuple) and s and s[0] == "call" and s[1][0] == "n" and s[1][1].endswith("Key")}
    if depth < 2:
        for s in subterms(t):
            if isinstance(s, tuple) and len(s) == 3 and s[0] == "a" and s[1] == ("self",):
                for st in ex.facts:
                    if isinstance(st, Store) and st.target == s:
                        keys |= _dependency_keys(fn, ex, st.value, depth + 1)
    return keys


def mgr_relation_copy(ctx: Ctx, pid: str):
    """C02.a: elaborate copies every relation of every transaction/method to its body, replacing only `end`."""
    rule = f"{pid}.relation-copy"
    fn = _fn(ctx, MANAGER, "TransactionManager.elaborate", rule)
    effs = fn.only(Effect, lambda e: pmatch("Q_e._body.relations.append(Q_r)", e.call) is not None, rule, "relation copy")
    for ex, e in effs[:1]:
        m = pmatch("Q_e._body.relations.append(Q_r)", e.call)
        its = loop_iters(e)
        lp = loops(e)
        ok_dom = len(lp) == 2 and pmatch("Q_x.relations", lp[1][1]) is not None and pmatch("Q_x.relations", lp[1][1])["x"] == lp[0][0][0] == m["e"]
        # relations can be declared on every TransactionBase front object: transactions, methods with a body, and methods
        # given an implementation with provide() (registered under ProvidedMethodsKey only) -- F23
        keys = set()
        if lp:
            for a in (lp[0][1][2] if is_call_to(lp[0][1], "chain") else (lp[0][1],)):
                keys |= _dependency_keys(fn, ex, a)
        need = {"TransactionsKey", "DefinedMethodsKey", "ProvidedMethodsKey"}
        ok_all = need <= keys
        ctx.check(ok_all, rule + ".domain", e.site, "TransactionManager.elaborate.relations.objects",
                  found="objects registered under " + (", ".join(sorted(keys)) or "no dependency key"),
                  required="relations are copied from the objects registered under TransactionsKey, DefinedMethodsKey and ProvidedMethodsKey "
                           "(a method defined with provide() carries relations too)")
        rel = lp[1][0][0] if len(lp) == 2 else None
        r = m["r"]
        ok_val = False
        if r[0] == "call" and r[1] == ("n", "RelationBase") and len(r[3]) == 1 and r[3][0][0] is None:
            d = r[3][0][1]
            if d[0] == "dict":
                items = d[1]
                spread = [v for k, v in items if k[0] == "star"]
                named = {k[1]: v for k, v in items if k[0] == "c"}
                ok_val = (len(spread) == 1 and pmatch("dataclass_asdict(Q_r)", spread[0]) is not None and pmatch("dataclass_asdict(Q_r)", spread[0])["r"] == rel
                          and set(named) == {"end"} and named["end"] == ("a", ("a", rel, "end"), "_body"))
        ctx.check(ok_dom and ok_val and not py_guard(e) is False and py_guard(e) is True, rule, e.site, "TransactionManager.elaborate.relations",
                  found=tstr(e.call)[:300] + " in " + " / ".join(tstr(i) for i in its),
                  required="for every transaction and method, every relation is copied to the body with only `end` replaced by its body")
