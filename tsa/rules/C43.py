"""C43 - testbench helpers: python-level path facts of CallTrigger / TestbenchIO / MethodMock.

Decided: every call with data is initialised (enable + inputs) before the single clock tick of the trigger and disabled
after it, on every path; the sampled record is (outputs, done) per call in call order followed by the plain values;
the result of a call is `outputs if done else None`; call = repeat the one-tick trigger until done, call_try = one
trigger; MethodMock: effects run only under `done`, once per tick, the effect list is cleared before the method is
re-enabled and before outputs are recomputed, outputs are computed inside the mock context and written to data_in
without a clock tick in between.  NOT decided: the scheduling semantics of the simulator (which process runs when)."""

from .common import *
from ..pm import find_all, has, pat, pmatch
from ..pyfacts import Fn, loops, py_guard
from ..stage import Effect, Jump, Raise, Store
from ..term import mentions, subterms

TB = "transactron/testing/testbenchio.py"
MM = "transactron/testing/method_mock.py"


def _is(e, text):
    return pmatch(text, e.call) is not None


def call_trigger(ctx):
    fn = Fn(ctx.repo, TB, "CallTrigger.__await__", "C43")
    CV = pat("self.calls_and_values")
    n = 0
    for ex in fn.exs:
        n += 1
        effs = ex.of(Effect)
        ticks = [e for e in effs if e.call[0] == "call" and e.call[1] == ("n", "yield_from")]
        name = ",".join("T" if v else "F" for _, v in ex.config)
        ok = len(ticks) == 1 and not ticks[0].frames
        trig = None
        if ok:
            m = pmatch("Q_t.__await__()", ticks[0].call[2][0])
            trig = m["t"] if m else None
            d = ex.vardefs.get(trig[2]) if trig is not None and trig[0] == "v" else trig
            ms = pmatch("self.sim.tick().sample(*Q_calls).sample(*Q_vals)", d) if d else None
            ok = ms is not None
        ctx.check(ok, "C43.single-tick", ticks[0].site if ticks else fn.site, f"CallTrigger.__await__[{name}].trigger", found="; ".join(tstr(e.call)[:120] for e in ticks) or "no suspension",
                  required="one await of self.sim.tick().sample(<calls>).sample(<values>): exactly one clock tick per trigger, unconditionally")
        if not ok:
            continue
        tick_seq = ticks[0].seq
        # sampled record per call: View({outputs, done}, Cat(outputs, done)) - field order = bit order; calls first, then values
        calls_lc, vals = ms["calls"], ms["vals"]
        okr = calls_lc[0] == "lc" and len(calls_lc[3]) == 1
        if okr:
            b, it, conds = calls_lc[3][0]
            mv = pmatch("View(Q_l, Cat(Q_o, Q_d))", calls_lc[2])
            okr = mv is not None and mv["o"] == ("a", ("i", b, ("c", 0)), "outputs") and mv["d"] == ("a", ("i", b, ("c", 0)), "done")
            only_calls = it
            okc = it[0] == "lc" and it[3][0][1] == CV and it[2] == it[3][0][0] and len(it[3][0][2]) == 1 and pmatch("isinstance(Q_x, tuple)", it[3][0][2][0]) is not None
            okv = vals[0] == "lc" and vals[3][0][1] == CV and len(vals[3][0][2]) == 1 and pmatch("not isinstance(Q_x, tuple)", vals[3][0][2][0]) is not None
            lay = [r for r in ex.of(Return) if r.callid is not None and pmatch("StructLayout(Q_d)", r.value)]
            okl = bool(lay) and all(_layout_order(r.value) for r in lay)
            okr = okr and okc and okv and okl
        ctx.check(okr, "C43.sample-record", ticks[0].site, f"CallTrigger.__await__[{name}].samples", found=tstr(d)[:260],
                  required="for every call (tuple entries, in order) the record View({outputs, done}, Cat(outputs, done)) of that call's adapter, followed by the plain values (non-tuple entries, in order)")
        inits = [e for e in effs if _is(e, "Q_t.call_init(self.sim, Q_d)")]
        dis = [e for e in effs if _is(e, "Q_t.disable(self.sim)")]
        cfg = list(ex.config)
        # paired guards: init before the tick and disable after it, for exactly the calls that carry data
        for lst, nm in ((inits, "call_init"), (dis, "disable")):
            for e in lst:
                lp = loops(e)
                m = pmatch("Q_t.call_init(self.sim, Q_d)", e.call) or pmatch("Q_t.disable(self.sim)", e.call)
                okp = len(lp) == 1 and okr and lp[0][1] == only_calls and m["t"] == ("i", lp[0][0][0], ("c", 0))
                g = py_guard(e)
                want = f_not(A(mk_is_none(("i", lp[0][0][0], ("c", 1))))) if lp else False
                okp = okp and equivalent(g, want) is None
                if nm == "call_init":
                    okp = okp and m.get("d") == ("i", lp[0][0][0], ("c", 1)) and e.seq < tick_seq
                else:
                    okp = okp and e.seq > tick_seq
                ctx.check(okp, "C43.init-disable-pairing", e.site, f"CallTrigger.__await__[{name}].{nm}", found=f"{tstr(e.call)} if {fstr(g)} (seq {e.seq}, tick {tick_seq})",
                          required="every call whose data is not None is initialised with its own data before the tick and disabled after the tick")
        # existence per configuration: the data-carrying decisions of this configuration
        has_init = any(v is False for t, v in cfg[:1])
        has_dis = any(v is False for t, v in cfg[1:2])
        ctx.check(bool(inits) == has_init and bool(dis) == has_dis, "C43.init-disable-pairing", fn.site, f"CallTrigger.__await__[{name}].presence", found=f"{len(inits)} init, {len(dis)} disable for decisions {[(tstr(t), v) for t, v in cfg[:2]]}",
                  required="initialisation and disabling are decided by the same test (data is not None) on the same list of calls")
        # results
        ys = [e for e in effs if e.call[0] == "call" and e.call[1] == ("n", "yield") and loops(e)]
        for e in ys:
            lp = loops(e)
            arg = e.call[2][0]
            is_call = any(fr[0] == "py" and fr[2] and pmatch("isinstance(Q_x, tuple)", fr[1]) for fr in e.frames)
            okq = len(lp) == 1 and lp[0][1] == CV
            if is_call:
                m = pmatch("next(Q_g)", arg)
                okq = okq and m is not None and m["g"][0] == "lc"
                if okq:
                    g = m["g"]
                    bs, its, cs = g[3][0]
                    okq = g[2] == ("ife", ("a", bs, "done"), ("a", bs, "outputs"), ("c", None)) and not cs
                    # the records of the calls are the first len(only_calls) samples after (clk hit, reset active)
                    okq = okq and its == ("i", ("i", ticks[0].call, ("slice", ("c", 2), ("c", None), ("c", None))), ("slice", ("c", None), ("call", ("n", "len"), (only_calls,), ()), ("c", None)))
                ctx.check(okq, "C43.call-result", e.site, f"CallTrigger.__await__[{name}].result", found=tstr(arg)[:260],
                          required="the result of a call is its sampled outputs if its sampled done bit is set, else None; taken from the first len(calls) samples after the two status values of the tick")
            else:
                m = pmatch("next(Q_g)", arg)
                okq = okq and m is not None
                if okq:
                    gi = m["g"]
                    dd = ex.vardefs.get(gi[2]) if gi[0] == "v" else gi
                    okq = dd is not None and pmatch("iter(Q_x)", dd) is not None and pmatch("iter(Q_x)", dd)["x"] == ("i", ("i", ticks[0].call, ("slice", ("c", 2), ("c", None), ("c", None))), ("slice", ("call", ("n", "len"), (only_calls,), ()), ("c", None), ("c", None)))
                ctx.check(okq, "C43.value-result", e.site, f"CallTrigger.__await__[{name}].value", found=tstr(arg)[:200], required="plain sampled values are the samples after the calls' records, in order")
    ctx.floor("C43", "CallTrigger.__await__ configurations", n, 4, fn.site)


def _awaited0(v):
    """X for a term await(X)[0]."""
    if v[0] == "i" and v[2] == ("c", 0) and v[1][0] == "call" and v[1][1] == ("n", "await") and len(v[1][2]) == 1:
        return v[1][2][0]
    return None


def mk_is_none(t):
    from ..term import mk_op

    return mk_op("is", ("c", None), t)


def _layout_order(v) -> bool:
    m = pmatch("StructLayout(Q_d)", v)
    d = m["d"] if m else None
    if d is None or d[0] != "dict":
        return False
    keys = [k for k, _ in d[1]]
    return keys == [("c", "outputs"), ("c", "done")] and d[1][1][1] == ("c", 1) and pmatch("Q_t.adapter.data_out.shape()", d[1][0][1]) is not None


def testbench_io(ctx):
    def ret(name):
        fn = Fn(ctx.repo, TB, name, "C43")
        rs = [(ex, r) for ex in fn.exs for r in ex.of(Return) if r.callid is None]
        return fn, rs

    fn, rs = ret("TestbenchIO.call")
    ok = len(rs) == 1 and _awaited0(rs[0][1].value) is not None and pmatch("CallTrigger(Q_s).call(self, Q_d, **Q_k).until_done()", _awaited0(rs[0][1].value)) is not None
    ctx.check(ok, "C43.call", fn.site, "TestbenchIO.call", found="; ".join(tstr(r.value) for _, r in rs), required="call = the single-call trigger repeated until_done, first (only) result")
    fn, rs = ret("TestbenchIO.call_try")
    m = pmatch("CallTrigger(Q_s).call(self, Q_d, **Q_k)", _awaited0(rs[0][1].value)) if len(rs) == 1 and _awaited0(rs[0][1].value) is not None else None
    ctx.check(m is not None, "C43.call-try", fn.site, "TestbenchIO.call_try", found="; ".join(tstr(r.value) for _, r in rs), required="call_try = one trigger (one tick) with the single call, first result (None iff not done)")
    # until_done / until_all_done: iterate the trigger, stop at the first result list with a (resp. only) non-None entries
    for name, quant in (("CallTrigger.until_done", "any"), ("CallTrigger.until_all_done", "all")):
        fn = Fn(ctx.repo, TB, name, "C43")
        rs = [(ex, r) for ex in fn.exs for r in ex.of(Return) if r.callid is None]
        ok = len(rs) == 1
        if ok:
            ex, r = rs[0]
            lp = loops(r)
            ok = len(lp) == 1 and lp[0][1] == ("self",) and r.value == lp[0][0][0]
            g = py_guard(r)
            ats = atoms_of(g)
            ok = ok and len(ats) == 1 and ats[0][0] == "call" and ats[0][1] == ("n", quant) and equivalent(g, A(ats[0])) is None
            if ok:
                lc = ats[0][2][0]
                res = lp[0][0][0]
                over_all = lc[0] == "lc" and lc[3][0][1] == res and to_formula(lc[2]) == f_not(A(mk_is_none(lc[3][0][0])))
                # ... over the entries that are calls (or sampled method results): a sampled plain value is never None, so a test over
                # every entry is trivially true for `any` as soon as a value is sampled (F37)
                over_calls = False
                if lc[0] == "lc" and len(lc[3]) == 1:
                    ib, it, conds = lc[3][0]
                    itd = ex.vardef(it) or it
                    if to_formula(lc[2]) == f_not(A(mk_is_none(("i", res, ib)))) and not conds and itd[0] == "lc" and len(itd[3]) == 1:
                        jb, jit, jc = itd[3][0]
                        # [i for i, v in enumerate(self.calls_and_values) if isinstance(v, tuple)]  (the extractor binds the index)
                        cav = ("a", ("self",), "calls_and_values")
                        over_calls = (itd[2] == jb and (pmatch("enumerate(Q_l)", jit) == {"l": cav} or jit == ("call", ("n", "range"), (("call", ("n", "len"), (cav,), ()),), ()))
                                      and len(jc) == 1 and pmatch("isinstance(Q_v, tuple)", jc[0]) == {"v": ("i", cav, jb)})
                ok = over_calls or (over_all and quant == "all")
        ctx.check(ok, "C43.until", fn.site, name, found="; ".join(f"{tstr(r.value)} if {fstr(py_guard(r))}" for _, r in rs) or "no return",
                  required=f"returns the first result list in which {quant} call entry (a tuple of calls_and_values) is not None; sampled plain values do not count")
    fn = Fn(ctx.repo, TB, "CallTrigger.__aiter__", "C43")
    ys = [(ex, e) for ex in fn.exs for e in ex.of(Effect) if e.call[0] == "call" and e.call[1] == ("n", "yield")]
    ok = len(ys) >= 1 and all(e.call[2][0] == ("call", ("n", "await"), (("self",),), ()) and any(fr[0] == "while" and fr[1] == ("c", True) for fr in e.frames) for _, e in ys)
    ctx.check(ok, "C43.aiter", fn.site, "CallTrigger.__aiter__", found="; ".join(tstr(e.call) for _, e in ys), required="each iteration awaits the trigger once (one tick, with its own initialise / disable)")
    # call(): the call is appended with its data; sample(): TestbenchIO entries get data None (sampled only)
    fn = Fn(ctx.repo, TB, "CallTrigger.call", "C43")
    rs = [(ex, r) for ex in fn.exs for r in ex.of(Return) if r.callid is None]
    ok = bool(rs)
    for ex, r in rs:
        m = pmatch("CallTrigger(self.sim, (*self.calls_and_values, (Q_t, Q_d)))", r.value)
        ok = ok and m is not None and m["t"] == fn.param(1)
    ctx.check(ok, "C43.trigger-call", fn.site, "CallTrigger.call", found="; ".join(tstr(r.value)[:140] for _, r in rs), required="appends (tbio, data) after the existing entries (order of results = order of calls)")
    # low-level operations
    fn = Fn(ctx.repo, TB, "TestbenchIO.call_init", "C43")
    n = 0
    for ex in fn.exs:
        effs = [e for e in ex.of(Effect)]
        if ex.of(Raise):
            continue
        n += 1
        en = [e for e in effs if _is(e, "self.enable(Q_s)")]
        si = [e for e in effs if _is(e, "self.set_inputs(Q_s, Q_d)")]
        ok = len(en) == 1 and len(si) == 1 and not en[0].frames and not si[0].frames
        ctx.check(ok, "C43.call-init", fn.site, "TestbenchIO.call_init", found="; ".join(tstr(e.call) for e in effs), required="enables the adapter and sets its inputs, unconditionally")
    ctx.floor("C43", "call_init paths", n, 1, fn.site)
    for name, val in (("TestbenchIO.enable", True), ("TestbenchIO.disable", False)):
        fn = Fn(ctx.repo, TB, name, "C43")
        effs = [e for ex in fn.exs for e in ex.of(Effect)]
        ok = len(effs) == 1 and effs[0].call == ("call", ("a", ("self",), "set_enable"), (fn.param(1), ("c", val)), ())
        ctx.check(ok, "C43.enable-disable", fn.site, name, found="; ".join(tstr(e.call) for e in effs), required=f"set_enable(sim, {val})")
    fn = Fn(ctx.repo, TB, "TestbenchIO.set_enable", "C43")
    effs = [e for ex in fn.exs for e in ex.of(Effect)]
    ok = bool(effs)
    for ex in fn.exs:
        es = ex.of(Effect)
        m = pmatch("Q_s.set(self.adapter.en, Q_v)", es[0].call) if len(es) == 1 else None
        dec = dict(ex.config).get(fn.param(2))
        ok = ok and m is not None and (m["v"] in (("ife", fn.param(2), ("c", 1), ("c", 0)), fn.param(2)) or (dec is not None and m["v"] in (("c", 1 if dec else 0), ("c", bool(dec)))))
    ctx.check(ok, "C43.enable-disable", fn.site, "TestbenchIO.set_enable", found="; ".join(tstr(e.call) for e in effs), required="drives adapter.en with 1 for a true argument and 0 otherwise")
    for name, attr_ in (("TestbenchIO.done", "done"), ("TestbenchIO.outputs", "data_out")):
        fn, rs = ret(name)
        ctx.check(len(rs) == 1 and rs[0][1].value == ("a", pat("self.adapter"), attr_), "C43.record-fields", fn.site, name, found="; ".join(tstr(r.value) for _, r in rs), required=f"the adapter's {attr_}")


def method_mock(ctx):
    ctx.use(MM)
    fn = Fn(ctx.repo, MM, "MethodMock.effect_process", "C43")
    EN = pat("self.adapter.en")
    n = 0
    for ex in fn.exs:
        n += 1
        effs = ex.of(Effect)
        stores = ex.of(Store)
        name = ",".join("T" if v else "F" for _, v in ex.config)
        sets = [e for e in effs if pmatch("Q_sim.set(self.adapter.en,Q_v)", e.call)]
        runs = [e for e in effs if e.call[0] == "call" and e.call[1][0] == "b" and not e.call[2]]
        inloop = [e for e in sets if loops(e)]
        tick = [lp for e in inloop for lp in loops(e)]
        ok = len(sets) == 3 and len(inloop) == 2 and not loops(sets[0]) and pmatch("Q_sim.set(self.adapter.en,self.enable())", sets[0].call) is not None
        ok = ok and pmatch("Q_sim.set(self.adapter.en,False)", inloop[0].call) is not None and pmatch("Q_sim.set(self.adapter.en,self.enable())", inloop[1].call) is not None
        ok = ok and all(pmatch("Q_sim.tick().sample(self.adapter.done)", lp[1]) is not None for lp in tick)
        ctx.check(ok, "C43.mock-enable-cycle", fn.site, f"MethodMock.effect_process[{name}].enable", found="; ".join(f"{tstr(e.call)}@{e.seq}" for e in sets),
                  required="every tick: the method is disabled first and re-enabled (enable()) last; before the first tick it is enabled by enable()")
        if not ok:
            continue
        lo, hi = inloop[0].seq, inloop[1].seq
        done = ("i", tick[0][0][0], ("c", -1))
        # effects: only under done, each pending effect once, between disable and re-enable
        okr = True
        for e in runs:
            lp = loops(e)
            g = py_guard(e)
            okr = okr and len(lp) == 2 and lp[1][1] == pat("self._effects") and e.call[1] == lp[1][0][0] and equivalent(g, A(done)) is None and lo < e.seq < hi
        # ... and the list is not changed while it is iterated (removing the applied effect inside the loop skips every second one)
        mutators = [e for e in effs if len(loops(e)) == 2 and loops(e)[1][1] == pat("self._effects") and e.call[0] == "call" and e.call[1][0] == "a"
                    and e.call[1][1] == pat("self._effects") and e.call[1][2] in ("remove", "pop", "append", "insert", "clear", "extend", "reverse", "sort")]
        mutators += [s_ for s_ in stores if s_.target == pat("self._effects") and len(loops(s_)) == 2 and loops(s_)[1][1] == pat("self._effects")]
        ctx.check(not mutators, "C43.mock-effects-list-stable", mutators[0].site if mutators else fn.site, f"MethodMock.effect_process[{name}].effects-loop",
                  found="; ".join(tstr(getattr(x, "call", None) or x.target) for x in mutators) or "the loop only calls the effects", required="the effect list is not modified inside the loop that runs it")
        want_runs = dict((tstr(t), v) for t, v in ex.config)
        has_done_true = any(v for t, v in ex.config if t == done)
        ctx.check(okr and (bool(runs) == has_done_true), "C43.mock-effects-once", runs[0].site if runs else fn.site, f"MethodMock.effect_process[{name}].effects",
                  found="; ".join(f"{tstr(e.call)} if {fstr(py_guard(e))}" for e in runs) or f"no effect run (done decided {has_done_true})",
                  required="the pending effects run exactly when the sampled done bit is set: once each, in order, while the method is disabled")
        clr = [s for s in stores if s.target == pat("self._effects")]
        fr = [s for s in stores if s.target == pat("self._freeze")]
        okc = len(clr) == 1 and clr[0].value == ("list",) and lo < clr[0].seq < hi and all(e.seq < clr[0].seq for e in runs) and len(loops(clr[0])) == 1 and not [f for f in clr[0].frames if f[0] == "py"]
        okf = len(fr) == 1 and fr[0].value == ("c", False) and lo < fr[0].seq < hi
        ctx.check(okc and okf, "C43.mock-effects-cleared", clr[0].site if clr else fn.site, f"MethodMock.effect_process[{name}].clear", found="; ".join(f"{tstr(s.target)} <- {tstr(s.value)}@{s.seq}" for s in clr + fr),
                  required="after running them the effect list is emptied and the freeze flag reset, unconditionally, before the method is re-enabled (no effect runs twice)")
        dl = [e for e in effs if e.call[0] == "call" and e.call[1] == ("n", "await") and len(e.call[2]) == 1 and pmatch("Q_sim.delay(self.delay)", e.call[2][0]) is not None]
        okd = len(dl) == 1 and all(e.seq < dl[0].seq for e in runs) and dl[0].seq < clr[0].seq if clr else False
        ctx.check(bool(okd), "C43.mock-delay", dl[0].site if dl else fn.site, f"MethodMock.effect_process[{name}].delay", found=f"{len(dl)} delay(s)", required="the configured delay lies between running the effects and re-enabling", nontrivial=False)
    ctx.floor("C43", "effect_process configurations", n, 1, fn.site)
    # output_process
    fn = Fn(ctx.repo, MM, "MethodMock.output_process", "C43")
    n = 0
    for ex in fn.exs:
        effs = ex.of(Effect)
        outs = [e for e in effs if pmatch("Q_sim.set(self.adapter.data_in, Q_r)", e.call)]
        cfg = {tstr(t): v for t, v in ex.config}
        name = ",".join("T" if v else "F" for _, v in ex.config)
        if not outs:
            # skipped: frozen or not done
            jumps = ex.of(Jump)
            ctx.check(bool(jumps), "C43.mock-output-skip", fn.site, f"MethodMock.output_process[{name}].skip", found=f"{len(jumps)} continue", required="a change without done, or after the clock edge, computes nothing", nontrivial=False)
            continue
        n += 1
        e = outs[0]
        lp = loops(e)
        okl = len(lp) == 1 and pmatch("Q_sim.changed(self.adapter.done, self.adapter.data_out).edge(Q_c, 1)", lp[0][1]) is not None
        rec = lp[0][0][0] if lp else None
        r = pmatch("Q_sim.set(self.adapter.data_in, Q_r)", e.call)["r"]
        d = ex.vardefs.get(r[2]) if r[0] == "v" else r
        okv = d is not None and pmatch("async_mock_def_helper(self, self.function, Q_a)", d) is not None and rec is not None and pmatch("async_mock_def_helper(self, self.function, Q_a)", d)["a"] == ("i", rec, ("c", -2))
        ctxs = [x for x in effs if x.call == ("call", ("n", "with"), (pat("self._context()"),), ())]
        clr = [s for s in ex.of(Store) if s.target == pat("self._effects")]
        okc = len(ctxs) == 1 and ctxs[0].seq < e.seq and len(clr) == 1 and clr[0].value == ("list",) and clr[0].seq < ctxs[0].seq
        no_wait = not [x for x in effs if x.call[0] == "call" and x.call[1] == ("n", "await") and x.seq < e.seq]
        # reached only when done and not frozen
        reach_ok = any(v for t, v in ex.config if rec is not None and t == ("i", rec, ("c", -3))) and cfg.get("self._freeze") is False
        ctx.check(okl and okv and okc and no_wait and reach_ok, "C43.mock-output", e.site, f"MethodMock.output_process[{name}]", found=f"{tstr(e.call)} with ret = {tstr(d) if d else '?'}; decisions {cfg}",
                  required="on a change with done set and before the clock edge: pending effects dropped, the mock function applied to the sampled argument inside the mock context, its result written to data_in at once (same cycle)")
    ctx.check(n >= 1, "C43.mock-output", fn.site, "MethodMock.output_process.writes-data-in", found=f"{n} path(s) that write the computed result to adapter.data_in", required="the mock's return value is written to the adapter's data_in (reaches the caller in the same cycle)")
    fn = Fn(ctx.repo, MM, "MethodMock.effect", "C43")
    effs = [e for ex in fn.exs for e in ex.of(Effect)]
    ok = len(effs) == 1 and effs[0].call == ("call", ("a", ("a", pat("MethodMock._current_mock"), "_effects"), "append"), (fn.param(0),), ())
    ctx.check(ok, "C43.mock-effect-registration", fn.site, "MethodMock.effect", found="; ".join(tstr(e.call) for e in effs), required="an effect is appended to the pending list of the mock whose function is being evaluated")


def check(ctx):
    ctx.use(TB)
    call_trigger(ctx)
    testbench_io(ctx)
    method_mock(ctx)
    from . import c43x

    c43x.low_level(ctx)
    c43x.mock_state(ctx)


MUTANTS = [
    ("no-disable-after-tick", TB, "        for tbio, data in only_calls:\n            if data is not None:\n                tbio.disable(self.sim)\n", ""),
    ("disable-before-tick", TB, "        _, _, *results = yield from trigger.__await__()\n\n        for tbio, data in only_calls:\n            if data is not None:\n                tbio.disable(self.sim)\n", "        for tbio, data in only_calls:\n            if data is not None:\n                tbio.disable(self.sim)\n\n        _, _, *results = yield from trigger.__await__()\n"),
    ("result-ignores-done", TB, "        calls_it = (s.outputs if s.done else None for s in results[: len(only_calls)])", "        calls_it = (s.outputs for s in results[: len(only_calls)])"),
    ("record-fields-swapped", TB, "View(layout_for(tbio), Cat(tbio.outputs, tbio.done))", "View(layout_for(tbio), Cat(tbio.done, tbio.outputs))"),
    ("results-skip-one-status", TB, "        _, _, *results = yield from trigger.__await__()", "        _, *results = yield from trigger.__await__()"),
    ("values-overlap-calls", TB, "        values_it = iter(results[len(only_calls) :])", "        values_it = iter(results[len(only_calls) - 1 :])"),
    ("init-unconditional-data", TB, "        for tbio, data in only_calls:\n            if data is not None:\n                tbio.call_init(self.sim, data)", "        for tbio, data in only_calls:\n            tbio.call_init(self.sim, data)"),
    ("call-is-single-try", TB, "        return (await CallTrigger(sim).call(self, data, **kwdata).until_done())[0]", "        return (await CallTrigger(sim).call(self, data, **kwdata))[0]"),
    ("until-done-all", TB, "            if any(results[i] is not None for i in calls):\n                return results", "            if all(results[i] is None for i in calls):\n                return results"),
    ("until-done-counts-sampled-values", TB, "            if any(results[i] is not None for i in calls):\n                return results", "            if any(res is not None for res in results):\n                return results"),
    ("until-done-only-first-call", TB, "calls = [i for i, v in enumerate(self.calls_and_values) if isinstance(v, tuple)]", "calls = [i for i, v in enumerate(self.calls_and_values) if isinstance(v, tuple)][:1]"),
    ("disable-enables", TB, "    def disable(self, sim: SimulatorContext):\n        self.set_enable(sim, False)", "    def disable(self, sim: SimulatorContext):\n        self.set_enable(sim, True)"),
    ("mock-effects-always", MM, "                if done:\n                    for eff in self._effects:\n                        eff()", "                for eff in self._effects:\n                    eff()"),
    ("mock-effects-not-cleared", MM, "            self._effects = []\n            self._freeze = False\n", "            self._freeze = False\n"),
    ("mock-no-disable", MM, "            sim.set(self.adapter.en, False)\n", ""),
    ("mock-output-keeps-effects", MM, "            self._effects = []\n            with self._context():", "            with self._context():"),
    ("mock-output-ignores-freeze", MM, "            if not done or self._freeze:\n                continue", "            if not done:\n                continue"),
    ("mock-effect-wrong-list", MM, "        MethodMock._current_mock._effects.append(effect)", "        MethodMock._current_mock._effects.insert(0, effect)"),
]
