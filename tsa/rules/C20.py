"""C20 - Semaphore counts acquisitions (complete at register-transfer level)."""

from .common import *
from . import excl
from ..pm import pmatch, pat

REL = "transactron/lib/fifo.py"
MAXC = pat("self.max_count")
SIZES = [1, 2, 3, 4, 5, 8]


def resolve_comb(ex, t, depth=3):
    """Replace locally driven combinational signals (single unconditional driver) by their definitions."""
    from ..term import rewrite

    for _ in range(depth):
        changed = [False]

        def f(x):
            if x[0] == "obj" or (x[0] == "a" and x[1] == ("self",)):
                ws = writers_of(ex, x, sync=False)
                if len(ws) == 1 and ws[0].guard is True and ws[0].part is None:
                    changed[0] = True
                    return ws[0].rhs
            return None

        t = rewrite(t, f)
        if not changed[0]:
            break
    return t


def check(ctx):
    ctx.use(REL)
    comp = Component(ctx.repo, REL, "Semaphore", rule="C20")
    comp.require_modelled("C20")
    ex = one_config(comp, "C20")
    acq, rel, clr = (need_body(ex, n, "C20", comp.site) for n in ("acquire", "release", "clear"))
    excl.exclusive(ctx, "C20", "Semaphore", acq, rel)
    cnt = pat("self.count")
    decl = comp.init_attr("count")
    m = pmatch("Signal(range(Q_n))", decl) if decl else None
    ctx.check(m is not None and lin_equal(m["n"], pat("self.max_count + 1")), "C20.counter-range", comp.site, "Semaphore.count.shape", found=tstr(decl) if decl else "none",
              required="Signal(range(max_count + 1)): can hold 0..max_count")
    # every signal that carries the next counter value (right-hand side of the register update) holds the same range
    for w in writers_of(ex, pat("self.count"), sync=True):
        if w.rhs[0] == "a" and w.rhs[1] == ("self",):
            d2 = comp.init_attr(w.rhs[2])
            m2 = pmatch("Signal(range(Q_n))", d2) if d2 else None
            ctx.check(m2 is not None and lin_equal(m2["n"], pat("self.max_count + 1")), "C20.counter-range", w.fact.site, f"Semaphore.{w.rhs[2]}.shape", found=tstr(d2) if d2 else "none",
                      required="the signal carrying the next count holds 0..max_count as well (a narrower one truncates max_count to 0 for powers of two)")
    # count <- next every cycle
    ws = writers_of(ex, cnt, sync=True)
    ok = len(ws) == 1 and ws[0].guard is True
    ctx.check(ok, "C20.state-update", ws[0].fact.site if ws else comp.site, "Semaphore.count'", found="; ".join(f"{tstr(w.rhs)} if {fstr(w.guard)}" for w in ws), required="count <- count_next every cycle (single unconditional writer)")
    if not ok:
        return
    nxt = ws[0].rhs
    t = decision_table(ex, nxt, sync=False)
    want = pat("self.count + self.acquire.run - self.release.run")
    check_table(ctx, "C20.count-next", comp.site, "Semaphore.count_next", t, [
        (run_f(clr), const_pred(0), "clear resets the count to zero (wins over acquire/release)"),
        (f_not(run_f(clr)), lin_pred(want), "otherwise count + acquire.run - release.run: acquisitions minus releases"),
    ])
    params = {MAXC: SIZES}
    rng = {cnt: (0, MAXC)}
    check_agree(ctx, "C20.acquire-ready", acq.site, "Semaphore.acquire.ready", resolve_comb(ex, acq.ready), pat("self.count < self.max_count"), params, rng, "acquire ready iff count below the maximum")
    check_agree(ctx, "C20.release-ready", rel.site, "Semaphore.release.ready", resolve_comb(ex, rel.ready), pat("self.count > 0"), params, rng, "release ready iff count positive")
    for b in (acq, rel, clr):
        no_effects(ctx, "C20.bodies-effect-free", comp, ex, b)


MUTANTS = [
    ("count-ignores-release", REL, "self.count_next.eq(self.count + self.acquire.run - self.release.run)", "self.count_next.eq(self.count + self.acquire.run)"),
    ("acquire-ready-le", REL, "self.acquire_ready.eq(self.count < self.max_count)", "self.acquire_ready.eq(self.count <= self.max_count)"),
    ("release-ready-ge", REL, "self.release_ready.eq(self.count > 0)", "self.release_ready.eq(self.count >= 0)"),
    ("clear-loses", REL, "        with m.If(self.clear.run):\n            m.d.comb += self.count_next.eq(0)\n        with m.Else():\n            m.d.comb += self.count_next.eq(self.count + self.acquire.run - self.release.run)",
     "        with m.If(self.acquire.run):\n            m.d.comb += self.count_next.eq(self.count + self.acquire.run - self.release.run)\n        with m.Elif(self.clear.run):\n            m.d.comb += self.count_next.eq(0)\n        with m.Else():\n            m.d.comb += self.count_next.eq(self.count + self.acquire.run - self.release.run)"),
    ("count-narrow", REL, "        self.count = Signal(range(self.max_count + 1))", "        self.count = Signal(range(self.max_count))"),
    ("update-gated", REL, "        m.d.sync += self.count.eq(self.count_next)", "        with m.If(self.acquire.run):\n            m.d.sync += self.count.eq(self.count_next)"),
    ("ready-swapped", REL, "        @def_method(m, self.acquire, ready=self.acquire_ready)", "        @def_method(m, self.acquire, ready=self.release_ready)"),
]
