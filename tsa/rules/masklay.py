"""Shared obligation (C21, C22): with granularity the `mask` argument of write has exactly the shape of the memory write
port's enable (one bit per granule): it is taken from the `en` member of an Amaranth WritePort signature built from
the bank's own shape and granularity."""

from __future__ import annotations

from ..pm import pat, pmatch
from ..pyfacts import Fn
from ..stage import Effect, Store
from ..term import tstr


def mask_layout(ctx, pid: str, rel: str, cls: str):
    fn = Fn(ctx.repo, rel, f"{cls}.__init__", pid)
    names = [a.arg for a in fn.fi.node.args.args + fn.fi.node.args.kwonlyargs]
    n = 0
    for ex in fn.exs:
        gran_none = None
        for t, v in ex.config:
            if pmatch("Q_g is None", t) is not None and "granularity" in tstr(t):
                gran_none = v
        stores = [s for s in ex.of(Store) if s.target == pat("self.writes_layout")]
        if len(stores) != 1 or gran_none is None:
            continue
        lay = stores[0].value
        masks = [x for x in _items(lay) if x[0] == "tuple" and len(x) == 3 and x[1] == ("c", "mask")]
        if gran_none:
            ctx.check(not masks, f"{pid}.mask-layout", stores[0].site, f"{cls}.writes_layout[no granularity]", found=tstr(lay)[:160], required="no mask argument without granularity", nontrivial=False)
            continue
        n += 1
        ok = len(masks) == 1
        detail = tstr(lay)[:200]
        if ok:
            m = pmatch("Q_sig.members['en'].shape", masks[0][2])
            ok = m is not None
            if ok:
                d = ex.vardefs.get(m["sig"][2]) if m["sig"][0] == "v" else m["sig"]
                ms = pmatch("memory.WritePort.Signature(addr_width=Q_a, granularity=Q_g, shape=Q_s)", d) if d else None
                ok = ms is not None and tstr(ms["g"]) in ("granularity", "self.granularity") and tstr(ms["s"]) in ("shape", "self.shape")
                detail = f"mask: {tstr(masks[0][2])} with signature {tstr(d) if d else '?'}"
        ctx.check(ok, f"{pid}.mask-layout", stores[0].site, f"{cls}.writes_layout.mask", found=detail,
                  required="the mask field has the shape of the `en` member of WritePort.Signature(shape=<bank shape>, granularity=<bank granularity>): one bit per granule")
    ctx.floor(pid, f"{cls} write layouts with a mask", n, 1, fn.site)


def _items(t):
    """Elements of a (possibly starred / called) list literal."""
    out = []
    for x in t[1:] if t[0] in ("list", "tuple") else ():
        out.append(x)
    if t[0] == "call":
        for a in t[2]:
            out.extend(_items(a[1]) if a[0] == "star" else _items(a))
    return out
