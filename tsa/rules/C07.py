"""C07 - the eager scheduler wastes no cycle."""

from . import core, core2, core3

M = core.MANAGER


def check(ctx):
    from . import core8

    core8.relation_defaults(ctx, "C07")
    core8.registration(ctx, "C07")
    core2.sched_run_definitions(ctx, "C07", want_equiv=True)
    core.cg_relation_lifting(ctx, "C07")
    core.cg_priority_passthrough(ctx, "C07")
    core.cg_implicit_edges(ctx, "C07")
    core.cg_transactions_exclusive(ctx, "C07")
    core3.tmodule_control_table(ctx, "C07", want_enter=True, want_mirror=False)
    core3.call_paths_exclusive(ctx, "C07")
    core3.exclusive_with(ctx, "C07")
    core3.ctrl_path_builder(ctx, "C07")
    core2.mgr_scheduler_per_component(ctx, "C07")
    from . import core9

    core9.validated_arguments_run_independent(ctx, "C07")
    # a validator must not see a call that is not enabled (calls in the alternative not taken never block, C07's last clause)
    core2.body_validate_arguments(ctx, "C07")
    core9.module_connector(ctx, "C07")
    from . import core7

    core7.selection_liveness(ctx, "C07")


MUTANTS = [
    ("nonexclusive-ancestor-prefix-only", M, "any(ancestor.nonexclusive for ancestor in call1.ancestors if ancestor in call2.ancestors)", "longest_common_prefix(call1.ancestors, call2.ancestors)[-1].nonexclusive"),
    ("nonexclusive-ancestor-either-chain", M, "any(ancestor.nonexclusive for ancestor in call1.ancestors if ancestor in call2.ancestors)", "any(ancestor.nonexclusive for ancestor in call1.ancestors)"),
    ("eager-extra-blocker", core.SCHED, "transaction.run.eq(transaction.ready & transaction.runnable & noconflict)", "transaction.run.eq(transaction.ready & transaction.runnable & noconflict & ~ccl[0].run)"),
    ("eager-blocks-on-all-earlier", core.SCHED, "for j in range(k) if ccl[j] in gr[transaction]]", "for j in range(k)]"),
    ("schedule-before-conflicts", core.TBASE, "                priority=Priority.LEFT,\n                conflict=False,", "                priority=Priority.LEFT,\n                conflict=True,"),
    ("edge-without-conflict-flag", M, "            if conflict:\n                cgr[begin].add(end)\n                cgr[end].add(begin)", "            if conflict or priority != Priority.UNDEFINED:\n                cgr[begin].add(end)\n                cgr[end].add(begin)"),
    ("no-exclusive-path-exemption", M, "                or call_paths_exclusive(call1.call_path, call2.call_path)\n                for call1", "                for call1"),
    ("no-nonexclusive-exemption", M, "any(ancestor.nonexclusive for ancestor in call1.ancestors if ancestor in call2.ancestors)\n                or call_paths_exclusive(call1.call_path, call2.call_path)", "call_paths_exclusive(call1.call_path, call2.call_path)"),
    ("else-pushes", core.TMODULE, "            with self.avoiding_module.Else():\n                with self.path_builder.enter(EnterType.ADD):", "            with self.avoiding_module.Else():\n                with self.path_builder.enter(EnterType.PUSH):"),
    ("case-pushes", core.TMODULE, "            with self.avoiding_module.Case(*patterns):\n                with self.path_builder.enter(EnterType.ENTRY):", "            with self.avoiding_module.Case(*patterns):\n                with self.path_builder.enter(EnterType.PUSH):"),
    ("entry-does-not-advance", core.TMODULE, "self.ctrl_path[-1] = replace(self.ctrl_path[-1], alt=self.ctrl_path[-1].alt + 1)", "self.ctrl_path[-1] = replace(self.ctrl_path[-1], alt=self.ctrl_path[-1].alt)"),
    ("self-pair-conflicts", M, "if transaction1 is not transaction2 and not calls_nonexclusive(transaction1, transaction2, method):", "if not calls_nonexclusive(transaction1, transaction2, method):"),
]
