"""OneHotSwitchDynamic (used by the tagged counter, C31, and the one-hot arbiter, C39): the generator yields every bit
position of the tested signal, each inside the case of exactly that one-hot value, and None inside the default case when
asked for one.  A position that is not yielded is a tag / a grant that is silently never handled."""

from __future__ import annotations

from ..pm import pmatch
from ..pyfacts import Fn, loops, py_guard
from ..stage import Effect
from ..term import tstr

ELAB = "transactron/utils/amaranth_ext/elaboratables.py"


def _is_yield(e):
    return e.call[0] == "call" and e.call[1] == ("n", "yield")


def one_hot_switch_dynamic(ctx, pid: str):
    ctx.use(ELAB)
    fn = Fn(ctx.repo, ELAB, "OneHotSwitchDynamic", pid)
    test = fn.param(1)
    ok_bits = ok_default = False
    det = []
    for ex in fn.exs:
        for e in ex.of(Effect):
            if not _is_yield(e) or not e.call[2]:
                continue
            v = e.call[2][0]
            withs = [fr[1] for fr in e.frames if fr[0] == "with"]
            lp = loops(e)
            det.append(f"yield {tstr(v)} in {[tstr(w)[:60] for w in withs]} over {[tstr(l[1]) for l in lp]}")
            sw = withs[0] if withs else None
            msw = pmatch("OneHotSwitch(Q_m, Q_t)", sw) if sw is not None else None
            if msw is None or msw["t"] != test or len(withs) != 2:
                continue
            case = pmatch("Q_s.__enter__(Q_v)", withs[1])
            case0 = pmatch("Q_s.__enter__()", withs[1])
            if lp and case is not None:
                i = lp[0][0][0]
                rng = pmatch("range(Q_n)", lp[0][1])
                cnt = ex.vardef(rng["n"]) or rng["n"] if rng else None
                ok_bits = ok_bits or (v == i and case["v"] in (("op", "<<", ("c", 1), i),) and cnt == ("call", ("n", "len"), (test,), ()) and len(lp) == 1 and py_guard(e) is True)
            if not lp and case0 is not None and v == ("c", None):
                g = py_guard(e)
                ok_default = ok_default or (g == ("atom", fn.fi and ("p", fn.fi.qualname, "kw:default", "default")) or "default" in tstr(g) if g is not True else False)
    ctx.check(ok_bits, f"{pid}.dynamic-switch.every-bit", fn.site, "OneHotSwitchDynamic.bits", found="; ".join(det)[:400] or "no yield",
              required="for i in range(len(test)): inside the case of 1 << i, yield i")
    ctx.check(ok_default, f"{pid}.dynamic-switch.default", fn.site, "OneHotSwitchDynamic.default", found="; ".join(det)[:400] or "no yield",
              required="when default is requested: inside the default case, yield None")
