"""C06 - body effects follow the run signal (comb / av_comb / top_comb semantics)."""

from . import core, core2, core3

T = core.TMODULE


def check(ctx):
    core3.tmodule_domains(ctx, "C06")
    core3.top_module_helper(ctx, "C06")
    core3.tmodule_control_table(ctx, "C06", want_enter=False, want_mirror=True)
    core2.body_wrappers(ctx, "C06")
    # a nested body's statements sit under AvoidedIf(run) of every enclosing body: they take effect when the nested body
    # runs only because a nested body is ready-dependent on its direct parent (it never runs without it)
    core2.mgr_ready_dependencies(ctx, "C06")
    from . import core6

    core6.tmodule_fsm_restore(ctx, "C06")


MUTANTS = [
    ("fsm-pointer-not-restored", T, "                yield fsm\n        self.fsm = old_fsm\n", "                yield fsm\n"),
    ("fsm-pointer-restored-to-inner", T, "                yield fsm\n        self.fsm = old_fsm\n", "                yield fsm\n        self.fsm = fsm\n"),
    ("av-comb-into-main", T, 'return _AvoidingModuleBuilderDomain(self._m.avoiding_module.d["comb"])', 'return _AvoidingModuleBuilderDomain(self._m.main_module.d["comb"])'),
    ("top-comb-into-avoiding", T, 'return _AvoidingModuleBuilderDomain(top_module(self._m).d["comb"])', 'return _AvoidingModuleBuilderDomain(self._m.avoiding_module.d["comb"])'),
    ("avoided-if-mirrored", T, "        with self.main_module.If(cond):\n            with self.path_builder.enter(EnterType.PUSH):\n                yield", "        with self.main_module.If(cond):\n            with self.avoiding_module.If(cond):\n                with self.path_builder.enter(EnterType.PUSH):\n                    yield"),
    ("elif-not-mirrored", T, "        with self.main_module.Elif(cond):\n            with self.avoiding_module.Elif(cond):\n                with self.path_builder.enter(EnterType.ADD):\n                    yield", "        with self.main_module.Elif(cond):\n            with self.path_builder.enter(EnterType.ADD):\n                yield"),
    ("else-as-if", T, "        with self.main_module.Else():\n            with self.avoiding_module.Else():", "        with self.main_module.Else():\n            with self.avoiding_module.If(1):"),
    ("state-wrong-name", T, "with self.avoiding_module.If(self.fsm.ongoing(name)):", 'with self.avoiding_module.If(self.fsm.ongoing("")):'),
    ("avoiding-module-not-registered", T, "        self.main_module.submodules._avoiding_module = self.avoiding_module\n", ""),
    ("transaction-body-not-avoided", core.TRANSACTION, "            with m.AvoidedIf(impl.run):\n                yield self", "            with m.If(impl.run):\n                yield self"),
    ("method-body-avoids-ready", core.METHOD, "with m.AvoidedIf(body.run):", "with m.AvoidedIf(body.ready):"),
    ("body-ready-unconditional", core.TRANSACTION, "m.d.av_comb += impl.ready.eq(ready)", "m.d.top_comb += impl.ready.eq(ready)"),
]
