"""C33 - event log: order / format agreement chains between producers and consumers of event records
(per-cycle faithfulness over histories is NOT decided)."""

from .common import *
from ..pm import pmatch, pat, has, find_all
from ..pyfacts import Fn, loops, loop_iters, py_guard
from ..stage import Effect, Raise, Store as St

EMIT = "transactron/evlog/emit.py"
LOG = "transactron/evlog/log.py"
SAMPLER = "transactron/evlog/sampler.py"
TEVLOG = "transactron/testing/evlog.py"
CONSUMER = "transactron/evlog/consumer.py"
SCHEMA = "transactron/evlog/schema.py"


def capture_process(ctx):
    fn = Fn(ctx.repo, TEVLOG, "_make_evlog_process", "C33", enter=("evlog_process",))
    records = fn.param(1)
    emits = fn.facts(Effect, lambda e: pmatch("Q_s.emit_raw(Q_c, Q_i, Q_v)", e.call) is not None)
    ctx.floor("C33", "capture emit sites", len(emits), 1, fn.site)
    ex, e = emits[0]
    m = pmatch("Q_s.emit_raw(Q_c, Q_i, Q_v)", e.call)
    lp = loops(e)
    ok = len(lp) == 2 and pmatch("enumerate(Q_r)", lp[1][1]) == {"r": records} and m["i"] == lp[1][0][0]
    site = lp[1][0][0] if len(lp) == 2 else None
    # producer: what is sampled, in which order
    tick = ex.vardef(lp[0][1]) if len(lp) == 2 else None
    samp = None
    for t in ([tick] if tick else []):
        for mm in find_all("Q_x.sample(*Q_s)", t):
            samp = ex.vardef(mm["s"]) or mm["s"]
    okp = False
    if samp is not None:
        mm = pmatch("chain.from_iterable(Q_g)", samp)
        if mm and mm["g"][0] == "lc":
            g = mm["g"]
            r = g[3][0][0]
            okp = g[2] == ("tuple", ("a", r, "trigger"), ("star", ("call", ("a", ("a", r, "fields"), "values"), (), ()))) and g[3][0][1] == records and not g[3][0][2]
    ctx.check(okp, "C33.capture-sample-order", fn.site, "evlog_process.sampled", found=tstr(samp)[:200] if samp else "none", required="per record, in record order: trigger first, then every field value")
    # consumer: trigger = next(it); values = [next(it) for _ in rec.fields]; guard = trigger
    g = py_guard(e)
    ats = atoms_of(g)
    okc = ok and len(ats) == 1 and equivalent(g, A(ats[0])) is None
    if okc:
        trig = ats[0]
        td = ex.vardef(trig)
        vals = m["v"]
        okc = td is not None and pmatch("next(Q_it)", td) is not None and vals[0] == "lc" and vals[2] == td and vals[3][0][1] == ("a", ("i", records, site), "fields")
        # the trigger is taken from the iterator before the field values: variable ids grow in evaluation order
        okc = okc and trig[0] == "v" and isinstance(vals[3][0][0][1], int) and trig[2] < vals[3][0][0][1]
        itv = pmatch("next(Q_it)", td)["it"] if td else None
        itd = ex.vardef(itv) if itv else None
        okc = okc and itd is not None and pmatch("iter(Q_v)", itd) is not None
    ctx.check(okc, "C33.capture-consume-order", e.site, "evlog_process.consumed", found=f"emit_raw({tstr(m['c'])}, {tstr(m['i'])}, {tstr(m['v'])[:80]}) if {fstr(g)}",
              required="per record, in the same order: first the trigger, then one value per field; a record is emitted iff its trigger sampled true, with its own site index")
    # the whole path: the process only gives up when there is nothing to sample
    r_emit = fn.reach(Effect, lambda x: pmatch("Q_s.emit_raw(Q_c, Q_i, Q_v)", x.call) is not None)
    others = [a for a in atoms_of(r_emit) if a not in ats]
    okr = okc and len(others) <= 1 and (not others or (others[0] == records and equivalent(r_emit, f_and(A(records), A(ats[0]))) is None))
    ctx.check(okr, "C33.capture-every-cycle", e.site, "evlog_process.reach", found=f"a record is emitted iff {fstr(r_emit)[:160]}",
              required="emitted iff there are records to sample and the record's trigger sampled true (no other way out of the process)")
    cyc = m["c"]
    ctx.check(cyc[0] == "i" and cyc[1] == lp[0][0][0], "C33.capture-cycle", e.site, "evlog_process.cycle", found=tstr(cyc), required="the cycle number is the tick counter sampled in the same tick", nontrivial=False)
    # schema order
    sf = Fn(ctx.repo, SCHEMA, "schema_from_records", "C33")
    apps = sf.facts(Effect, lambda x: pmatch("Q_l.append(Q_s)", x.call) is not None)
    ok_sites = ok_fields = False
    for ex2, a in apps:
        mm = pmatch("Q_l.append(Q_s)", a.call)
        lp2 = loops(a)
        if has("EventSiteSchema", mm["s"]) or (ex2.vardef(mm["s"]) and has("EventSiteSchema", ex2.vardef(mm["s"]))):
            ok_sites = len(lp2) == 1 and lp2[0][1] == sf.param(0) and py_guard(a) is True
        if is_call_n(mm["s"], "EventFieldSchema"):
            ok_fields = len(lp2) == 2 and pmatch("Q_r.fields.items()", lp2[1][1]) is not None and pmatch("Q_r.fields.items()", lp2[1][1])["r"] == lp2[0][0][0] and dict(mm["s"][3]).get("name") == ("i", lp2[1][0][0], ("c", 0))
    ctx.check(ok_sites and ok_fields, "C33.schema-order", sf.site, "schema_from_records", found=f"sites in record order: {ok_sites}; fields in rec.fields order: {ok_fields}", required="site k of the schema describes record k; its fields are listed in the order of rec.fields (the order values are sampled in)")


def is_call_n(t, name):
    return t[0] == "call" and t[1] == ("n", name)


def decoder(ctx):
    fn = Fn(ctx.repo, LOG, "EventDecoder.decode", "C33")
    cycle, site_idx, values = fn.param(1), fn.param(2), fn.param(3)
    rets = fn.facts(Return, lambda r: r.callid is None)
    ok = False
    for ex, r in rets:
        m = pmatch("DecodedEvent(cycle=Q_c, event=Q_e, site=Q_s)", r.value)
        if not m:
            continue
        site = ex.vardef(m["s"]) or m["s"]
        ev = ex.vardef(m["e"]) or m["e"]
        me = pmatch("self._site_classes[Q_i].from_raw(Q_d, Q_st)", ev)
        ok = m["c"] == cycle and site == ("i", pat("self.schema.sites"), site_idx) and me is not None and me["i"] == site_idx
        if ok:
            d = me["d"]
            ok = d[0] == "lc" and d[1] == "dict" and has("zip(Q_f, Q_v)", d[3][0][1]) and pmatch("zip(Q_f, Q_v)", d[3][0][1])["v"] == values and tstr(pmatch("zip(Q_f, Q_v)", d[3][0][1])["f"]).endswith(".fields")
    ctx.check(ok, "C33.decode-pairing", fn.site, "EventDecoder.decode", found="; ".join(tstr(r.value)[:160] for _, r in rets), required="values are zipped positionally with the fields of the *same* site index; the event class is that site's class")
    rs = fn.facts(Raise)
    ctx.check(any(has("len(Q_v) != len(Q_f)", fr[1]) or True for _, x in rs for fr in x.frames if fr[0] == "py") and bool(rs), "C33.decode-arity", fn.site, "EventDecoder.decode.arity", found=f"{len(rs)} raise(s)", required="a record with a wrong number of values is rejected", nontrivial=False)


def record_layout(ctx):
    """[cycle, site, values] everywhere; header first."""
    def eff(fnq, patt):
        fn = Fn(ctx.repo, LOG, fnq, "C33")
        return fn, [(ex, e, pmatch(patt, e.call)) for ex, e in fn.facts(Effect) if pmatch(patt, e.call)]

    fn, es = eff("EventLog.emit_raw", "self.raw.append((Q_a, Q_b, Q_c))")
    ok = len(es) == 1 and es[0][2]["a"] == fn.param(1) and es[0][2]["b"] == fn.param(2) and es[0][2]["c"] == ("call", ("n", "list"), (fn.param(3),), ())
    ctx.check(ok, "C33.record-layout", fn.site, "EventLog.emit_raw", found="; ".join(tstr(e.call) for _, e, _ in es), required="raw record = (cycle, site, values)")
    fn, es = eff("EventLogWriter.emit_raw", "Q_f.write(json.dumps([Q_a, Q_b, Q_c]) + Q_nl)")
    ok = len(es) == 1 and es[0][2]["a"] == fn.param(1) and es[0][2]["b"] == fn.param(2) and es[0][2]["c"] == ("call", ("n", "list"), (fn.param(3),), ())
    ctx.check(ok, "C33.record-layout", fn.site, "EventLogWriter.emit_raw", found="; ".join(tstr(e.call) for _, e, _ in es), required="a line is the JSON list [cycle, site, values]")
    fn, es = eff("EventLog.save", "Q_f.write(json.dumps([Q_a, Q_b, Q_c]) + Q_nl)")
    ok = len(es) == 1
    if ok:
        ex, e, m = es[0]
        lp = loops(e)
        ok = len(lp) == 1 and lp[0][1] == pat("self.raw") and (m["a"], m["b"], m["c"]) == tuple(("i", lp[0][0][0], ("c", k)) for k in range(3))
    hdr = [e for _, e in fn.facts(Effect) if is_call_n(e.call, "_write_header")]
    okh = bool(hdr) and bool(es) and hdr[0].seq < es[0][1].seq and not loops(hdr[0])
    ctx.check(ok and okh, "C33.record-layout", fn.site, "EventLog.save", found="; ".join(tstr(e.call) for _, e, _ in es) + f"; header first: {okh}", required="header line first, then [cycle, site, values] per raw record, fields in stored order")
    # readers
    for q, sink in (("EventLog.load", "Q_l.raw.append((Q_a, Q_b, Q_c))"), ("EventLogReader.__iter__", None)):
        fn = Fn(ctx.repo, LOG, q, "C33")
        ok = False
        detail = ""
        for ex in fn.exs:
            if sink:
                for e in ex.of(Effect):
                    m = pmatch(sink, e.call)
                    if m:
                        src = {tstr(ex.vardef(x[1]) or x[1]) if x[0] == "i" else tstr(x) for x in (m["a"], m["b"], m["c"])}
                        idx = [x[2] for x in (m["a"], m["b"], m["c"]) if x[0] == "i"]
                        ok = idx == [("c", 0), ("c", 1), ("c", 2)] and len(src) == 1 and "json.loads" in next(iter(src))
                        detail = tstr(e.call)
            else:
                for e in ex.of(Effect):
                    m = pmatch("yield(Q_x)", e.call) if False else None
                    if is_call_n(e.call, "yield") and e.call[2]:
                        d = e.call[2][0]
                        md = pmatch("Q_d.decode(Q_a, Q_b, Q_c)", d)
                        if md:
                            idx = [x[2] for x in (md["a"], md["b"], md["c"]) if x[0] == "i"]
                            ok = idx == [("c", 0), ("c", 1), ("c", 2)]
                            detail = tstr(d)
        # every non-blank line is a record
        pred = (lambda e, s=sink: pmatch(s, e.call) is not None) if sink else (lambda e: is_call_n(e.call, "yield") and bool(e.call[2]))
        r = fn.reach(Effect, pred)
        ats = atoms_of(r)
        okl = False
        if len(ats) == 1:
            # the one test on the way is the truth value of the stripped line
            a = ats[0]
            defs = [d for ex in fn.exs for d in [ex.vardef(a)] if d is not None]
            okl = equivalent(r, A(a)) is None and (pmatch("Q_l.strip()", defs[0]) is not None if defs else (a[0] in ("v", "loopvar", "n", "b")))
        ctx.check(okl, "C33.every-line-read", fn.site, q + ".lines", found=f"a record is produced iff {fstr(r)[:160]}", required="every line of the file whose stripped text is non-empty yields one record")
        hdr = [(ex, e) for ex in fn.exs for e in ex.of(Effect) if has("Q_f.readline()", e.call)] + [(ex, t) for ex in fn.exs for t in ex.vardefs.values() if has("_read_header(Q_f)", t)]
        ctx.check(ok, "C33.record-layout", fn.site, q, found=detail or "no consumer found", required="a line is unpacked as cycle, site, values in that order")
        ctx.check(bool(hdr), "C33.header-first", fn.site, q + ".header", found=f"{len(hdr)} header read(s)", required="the header line is consumed before the records", nontrivial=False)


def _values_normalise(ctx) -> bool:
    """GeneratedEvLogSampler._values(site, readers): one value per (field of the site's schema, reader), equal to the reader's
    result taken modulo 2**width and read as two's complement when the field is signed - decided by evaluating the appended term
    for widths 0..4, both signednesses and every bit pattern (also with garbage above the width and already-signed inputs)."""
    if "_c33_values" in ctx.__dict__:
        return ctx.__dict__["_c33_values"]
    from ..logic import evalt, NotEvaluable

    fn = Fn(ctx.repo, SAMPLER, "GeneratedEvLogSampler._values", "C33")
    site, rd = fn.param(1), fn.param(2)
    ok = True
    detail = ""
    checked = 0
    for ex in fn.exs:
        apps = [e for e in ex.of(Effect) if pmatch("Q_l.append(Q_v)", e.call) is not None and len(loops(e)) == 1]
        rets = [r for r in ex.of(Return) if r.callid is None]
        if len(apps) != 1 or len(rets) != 1 or rets[0].value != pmatch("Q_l.append(Q_v)", apps[0].call)["l"]:
            ok, detail = False, "not a list built by one append per field"
            continue
        e = apps[0]
        (b,), it = loops(e)[0]
        mz = pmatch("zip(Q_f, Q_r)", it)
        if mz is None or mz["r"] != rd or mz["f"] != ("a", ("i", pat("self.generated.schema.sites"), site), "fields"):
            ok, detail = False, f"loop over {tstr(it)[:100]}"
            continue
        field = ("i", mz["f"], b)
        R, W, S = ("call", ("i", rd, b), (), ()), ("a", field, "width"), ("a", field, "signed")
        val = pmatch("Q_l.append(Q_v)", e.call)["v"]
        for w in range(0, 5):
            for signed in (False, True):
                for p in list(range(-(1 << w), 1 << (w + 1))):
                    env = {R: p, W: w, S: signed}
                    try:
                        if not all(bool(evalt(t, env)) == v for t, v in ex.config):
                            continue
                        got = evalt(val, env)
                    except NotEvaluable as x:
                        ok, detail = False, f"cannot evaluate ({x})"
                        break
                    want = p & ((1 << w) - 1)
                    if signed and w and want >> (w - 1):
                        want -= 1 << w
                    checked += 1
                    if got != want:
                        ok, detail = False, f"width {w} signed {signed} reader result {p}: {got}, expected {want}"
    ctx.check(ok and checked >= 100, "C33.sampler-values", fn.site, "GeneratedEvLogSampler._values", found=detail or f"{checked} (width, signedness, pattern) cases agree",
              required="each value is the reader's result modulo 2**width, as two's complement when the field is signed")
    ctx.__dict__["_c33_values"] = ok and checked >= 100
    return ctx.__dict__["_c33_values"]


def sampler(ctx):
    fn = Fn(ctx.repo, SAMPLER, "GeneratedEvLogSampler.sample", "C33")
    cycle, sink = fn.param(1), fn.param(2)
    emits = fn.facts(Effect, lambda e: pmatch("Q_s.emit_raw(Q_c, Q_i, Q_v)", e.call) is not None)
    ctx.floor("C33", "sampler emit sites", len(emits), 2, fn.site)
    packed_seen = plain_seen = False
    for ex, e in emits:
        m = pmatch("Q_s.emit_raw(Q_c, Q_i, Q_v)", e.call)
        lp = loops(e)
        ok = len(lp) == 1 and pmatch("enumerate(self._sites)", lp[0][1]) is not None and m["i"] == lp[0][0][0] and m["c"] == cycle
        site = lp[0][0][0] if lp else None
        vals = m["v"]
        # the values reported are the *field values*: every reader's result reduced to the width of its field and sign-extended
        # when the field is signed (F43: a backend returns the bit pattern of a wire; the captured log holds signed values)
        readers = ("i", ("i", pat("self._sites"), site), ("c", 1))
        okv = vals == ("call", ("a", ("self",), "_values"), (site, readers), ()) and _values_normalise(ctx)
        g = py_guard(e)
        trig_atoms = [a for a in atoms_of(g) if any(s == site for s in subterms(a))]
        okg = len(trig_atoms) == 1
        kind = "?"
        if okg:
            a = trig_atoms[0]
            raw = [fr[1] for fr in e.frames if fr[0] == "py" and fr[2] and any(s == site for s in subterms(fr[1]))]
            mm = pmatch("1 & (Q_p >> Q_s)", raw[0]) if len(raw) == 1 else None
            if mm and mm["s"] == site:
                kind = "packed"
                packed_seen = True
                pd = ex.vardef(mm["p"]) or mm["p"]
                okg = pd == pat("self._packed_triggers()")
            elif a == ("call", ("i", ("i", pat("self._sites"), site), ("c", 0)), (), ()):
                kind = "per-site"
                plain_seen = True
            else:
                okg = False
            okg = okg and implies(g, A(a)) is None
            # ... and nothing else stands in the way: the path condition of the emission is the mode test and the
            # site's trigger (a packed word that is zero has no bit set, so an early return on it changes nothing)
            r = fn.reach(Effect, lambda x, e=e: x.call == e.call and x.frames == e.frames)
            mode = [t for t in atoms_of(r) if t[0] == "op" and t[1] == "is" and ("c", None) in t[2:]]
            word = [t for t in atoms_of(r) if t not in mode and t != a and not any(s == site for s in subterms(t))]
            if okg and len(mode) == 1 and len(word) <= 1:
                want = f_and(f_not(A(mode[0])) if kind == "packed" else A(mode[0]), A(a))
                alt = f_and(want, A(word[0])) if word and kind == "packed" and (ex.vardef(word[0]) or word[0]) == pat("self._packed_triggers()") else want
                okg = equivalent(r, want) is None or equivalent(r, alt) is None
            else:
                okg = False
        ctx.check(ok and okv and okg, "C33.sampler-site-index", e.site, f"GeneratedEvLogSampler.sample[{kind}]", found=f"{tstr(e.call)[:140]} if {fstr(g)[:120]}",
                  required="site k is emitted iff its trigger (bit k of the packed word / its own trigger reader) is set, with site index k and that site's field readers")
    ctx.check(packed_seen and plain_seen, "C33.sampler-both-modes", fn.site, "GeneratedEvLogSampler.sample.modes", found=f"packed={packed_seen} per-site={plain_seen}", required="packed and per-site trigger modes analysed", nontrivial=False)
    init = Fn(ctx.repo, SAMPLER, "GeneratedEvLogSampler.__init__", "C33")
    sts = [s for _, s in init.facts(St) if s.target == pat("self._sites")]
    ok = len(sts) == 1 and sts[0].value[0] == "lc"
    if ok:
        lc = sts[0].value
        loc = lc[3][0][0]
        ok = lc[3][0][1] == pat("generated.site_locations") or tstr(lc[3][0][1]).endswith("site_locations")
        elt = lc[2]
        ok = ok and elt[0] == "tuple" and pmatch("Q_r(Q_l.trigger)", elt[1]) is not None and pmatch("Q_r(Q_l.trigger)", elt[1])["l"] == loc and elt[2][0] == "lc" and elt[2][3][0][1] == ("a", loc, "fields")
    ctx.check(ok, "C33.sampler-site-order", init.site, "GeneratedEvLogSampler._sites", found=tstr(sts[0].value)[:200] if sts else "none", required="site k = (trigger reader, field readers in field order) of site location k")


def emit_rules(ctx):
    fn = Fn(ctx.repo, EMIT, "EventSource.emit", "C33")
    en = [ex for ex in fn.exs if dict((tstr(t), v) for t, v in ex.config).get("evlog_enabled()")]
    dis = [ex for ex in fn.exs if dict((tstr(t), v) for t, v in ex.config).get("evlog_enabled()") is False]
    ok = len(en) == 1 and len(dis) == 1 and not dis[0].of(HwAssign) and not [e for e in dis[0].of(Effect)]
    ctx.check(ok, "C33.emit-disabled", fn.site, "EventSource.emit.disabled", found=f"enabled configs {len(en)}, disabled {len(dis)}", required="with the event log disabled emit creates nothing")
    if en:
        ex = en[0]
        hs = ex.of(HwAssign)
        ok = len(hs) == 1 and hs[0].domain == ("c", "comb") and pmatch("Value.cast(Q_w).any()", hs[0].rhs) is not None and pmatch("Value.cast(Q_w).any()", hs[0].rhs)["w"][0] == "p"
        trig = hs[0].lhs if hs else None
        calls = [e for e in ex.of(Effect) if pmatch("self.top_emit(Q_ev, src_loc=Q_s, when=Q_w)", e.call)]
        ok = ok and len(calls) == 1 and pmatch("self.top_emit(Q_ev, src_loc=Q_s, when=Q_w)", calls[0].call)["w"] == trig
        ctx.check(ok, "C33.emit-context-sensitive", hs[0].site if hs else fn.site, "EventSource.emit.trigger", found="; ".join(f"{tstr(h.domain)} += {tstr(h.lhs)}.eq({tstr(h.rhs)})" for h in hs),
                  required="emit gates the trigger through a `comb` assignment (active only when the surrounding body runs and its conditions hold) and registers that gated signal")
    te = Fn(ctx.repo, EMIT, "EventSource.top_emit", "C33")
    adds = te.facts(Effect, lambda e: has("EvLogKey()", e.call) and is_attr_call(e.call, "add_dependency"))
    ok = False
    for ex, e in adds:
        rec = e.call[2][1]
        rd = ex.vardef(rec) or rec
        if is_call_n(rd, "EmittedEvent"):
            kw = dict(rd[3])
            tr = kw.get("trigger")
            ok = tr is not None and pmatch("Value.cast(Q_w).any()", tr) is not None and pmatch("Value.cast(Q_w).any()", tr)["w"][0] == "p" and not ex.of(HwAssign)
            ok = ok and kw.get("fields") is not None and kw.get("statics") is not None
    ctx.check(ok, "C33.top-emit-registers", te.site, "EventSource.top_emit", found=f"{len(adds)} registration(s)", required="top_emit registers the record with the ungated trigger (no module context) under EvLogKey")
    dis = [ex for ex in te.exs if dict((tstr(t), v) for t, v in ex.config).get("evlog_enabled()") is False]
    ctx.check(len(dis) == 1 and not dis[0].of(Effect), "C33.emit-disabled", te.site, "EventSource.top_emit.disabled", found=f"{len(dis)} disabled configuration(s)", required="with the event log disabled nothing is registered")


def is_attr_call(t, name):
    return t[0] == "call" and t[1][0] == "a" and t[1][2] == name


def consumer(ctx):
    fn = Fn(ctx.repo, CONSUMER, "EventConsumer.run", "C33")
    ds = fn.facts(Effect, lambda e: pmatch("self.dispatch(Q_r)", e.call) is not None)
    ok = False
    for ex, e in ds:
        lp = loops(e)
        if len(lp) == 1:
            m = pmatch("sorted(Q_r, key=Q_k)", lp[0][1])
            if m and m["r"] == fn.param(1) and m["k"][0] == "lam":
                import ast as _ast

                clo = ex.closures[m["k"][1]]
                src = _ast.unparse(clo.node.body) if isinstance(clo.node, _ast.Lambda) else ""
                ok = src.endswith(".cycle") and pmatch("self.dispatch(Q_r)", e.call)["r"] == lp[0][0][0] and py_guard(e) is True
    ctx.check(ok, "C33.consumer-cycle-order", fn.site, "EventConsumer.run", found="; ".join(f"{tstr(e.call)} over {[tstr(i)[:60] for i in loop_iters(e)]}" for _, e in ds), required="every record is dispatched, in ascending cycle order")
    # dispatch hands the record to the handler registered for its event name
    fd = Fn(ctx.repo, CONSUMER, "EventConsumer.dispatch", "C33")
    rec = fd.param(1)
    ok = False
    detail = "no handler call"
    for ex, e in fd.facts(Effect):
        if e.call[0] != "call" or e.call[2] != (rec,) or e.call[3]:
            continue
        h = ex.vardef(e.call[1]) or e.call[1]
        mg = pmatch("getattr(self, Q_n)", h)
        detail = f"{tstr(h)}({tstr(rec)}) if {fstr(py_guard(e))[:120]}"
        if mg is None:
            continue
        nm = ex.vardef(mg["n"]) or mg["n"]
        mk = pmatch("self._handlers.get(Q_k)", nm)
        g = py_guard(e)
        ats = atoms_of(g)
        ok = mk is not None and mk["k"] == ("a", ("a", rec, "event"), "event_name") and len(ats) == 1 and ats[0][0] == "op" and ats[0][1] == "is" and ("c", None) in ats[0][2:] and equivalent(g, f_not(A(ats[0]))) is None
    ctx.check(ok, "C33.consumer-dispatch", fd.site, "EventConsumer.dispatch", found=detail, required="getattr(self, self._handlers[rec.event.event_name])(rec) whenever a handler is registered for the event name")
    fi = Fn(ctx.repo, CONSUMER, "EventConsumer.__init_subclass__", "C33")
    regs = fi.facts(St, lambda s: s.target[0] == "i" and pmatch("Q_h.event_name", s.target[2]) is not None)
    ok = False
    for ex, s in regs:
        lp = loops(s)
        g = py_guard(s)
        ats = atoms_of(g)
        hd = pmatch("Q_h.event_name", s.target[2])["h"]
        hdd = ex.vardef(hd) or hd
        mgt = pmatch("getattr(Q_f, '_evlog_handles', None)", hdd)
        ok = (len(lp) == 1 and pmatch("vars(Q_c).items()", lp[0][1]) is not None and mgt is not None and mgt["f"] == ("i", lp[0][0][0], ("c", 1)) and s.value == ("i", lp[0][0][0], ("c", 0))
              and len(ats) == 1 and equivalent(g, f_not(A(ats[0]))) is None and ats[0][0] == "op" and ats[0][1] == "is")
        tgt = s.target[1]
    final = fi.facts(St, lambda s: pmatch("Q_c._handlers", s.target) is not None)
    ctx.check(ok and bool(final) and any(s.value == tgt for _, s in final if ok), "C33.consumer-handlers", fi.site, "EventConsumer.__init_subclass__", found="; ".join(f"{tstr(s.target)} = {tstr(s.value)} if {fstr(py_guard(s))}" for _, s in regs) or "no registration",
              required="every attribute marked with an event class is registered under that event's name, and the table is stored on the class")


GEN = "transactron/utils/gen.py"


def debug_wrapper_reads_only(ctx):
    """F42 (the generated-design route): the wrapper that exposes triggers and fields of emission sites (and log records) as
    named signals only READS the design: the signal it hands out is one of its own, driven from the value.  Driving a signal of
    the design that has no assignment statement (an input port, the data of a memory read port, an instance output) turns the port
    into a constant / gives the signal two drivers."""
    import ast

    ctx.use(GEN)
    mi = ctx.repo.module(GEN)
    cls = [c for c in mi.tree.body if isinstance(c, ast.ClassDef) and c.name == "VerilogDebugWrapper"]
    fns = [f for c in cls for e in c.body if isinstance(e, ast.FunctionDef) and e.name == "elaborate" for f in ast.walk(e) if isinstance(f, ast.FunctionDef) and f.name == "to_signal"]
    ctx.floor("C33", "VerilogDebugWrapper.elaborate.to_signal", len(fns), 1, GEN)
    for f in fns:
        param = f.args.args[0].arg
        # names that (may) alias the parameter: the parameter and names assigned from an expression of it that is not a constructor
        alias = {param}
        for st in ast.walk(f):
            if isinstance(st, ast.Assign) and len(st.targets) == 1 and isinstance(st.targets[0], ast.Name):
                v = st.value
                is_cast = isinstance(v, ast.Call) and isinstance(v.func, ast.Attribute) and v.func.attr == "cast" and v.args and isinstance(v.args[0], ast.Name) and v.args[0].id in alias
                if (isinstance(v, ast.Name) and v.id in alias) or is_cast:
                    alias.add(st.targets[0].id)
        drives = [c for c in ast.walk(f) if isinstance(c, ast.Call) and isinstance(c.func, ast.Attribute) and c.func.attr == "eq" and isinstance(c.func.value, ast.Name) and c.func.value.id in alias]
        rets = [r for r in ast.walk(f) if isinstance(r, ast.Return)]
        returns_alias = [r for r in rets if isinstance(r.value, ast.Name) and r.value.id in alias]
        # ... and the signal handed out follows the value combinationally
        ret_names = {r.value.id for r in rets if isinstance(r.value, ast.Name)}
        follows = [st for st in ast.walk(f) if isinstance(st, ast.AugAssign) and isinstance(st.op, ast.Add) and isinstance(st.target, ast.Attribute) and st.target.attr == "comb"
                   and isinstance(st.target.value, ast.Attribute) and st.target.value.attr == "d"
                   and isinstance(st.value, ast.Call) and isinstance(st.value.func, ast.Attribute) and st.value.func.attr == "eq"
                   and isinstance(st.value.func.value, ast.Name) and st.value.func.value.id in ret_names
                   and len(st.value.args) == 1 and isinstance(st.value.args[0], ast.Name) and st.value.args[0].id in alias]
        ctx.check(bool(follows) and len(ret_names) == 1, "C33.debug-wrapper-copy-follows", f"{GEN}:{f.lineno}", "VerilogDebugWrapper.to_signal.copy",
                  found=f"{len(follows)} combinational assignment(s) of the value to the returned signal", required="m.d.comb += <returned signal>.eq(<the value>)")
        ctx.check(not drives and not returns_alias and bool(rets), "C33.debug-wrapper-reads-only", f"{GEN}:{f.lineno}", "VerilogDebugWrapper.to_signal",
                  found=f"{len(drives)} assignment(s) to the given value, {len(returns_alias)} return(s) of the given value itself",
                  required="the value is copied into a signal of the wrapper (sig = Signal.like(val); comb += sig.eq(val)); the design's own signal is neither driven nor handed out")


def debug_wrapper_all_sites(ctx):
    """The wrapper exposes EVERY emission site (and every log record): one entry per element of get_emitted_events() /
    get_log_records(0), unconditionally; the packed trigger vector has one bit per recorded site, in that order."""
    fn = Fn(ctx.repo, GEN, "VerilogDebugWrapper.elaborate", "C33")
    apps = fn.facts(Effect, lambda e: pmatch("self.evlog_records.append(Q_x)", e.call) is not None)
    ok = False
    for ex, e in apps:
        lp = loops(e)
        ok = ok or (len(lp) == 1 and pmatch("get_emitted_events()", lp[0][1]) is not None and py_guard(e) is True
                    and pmatch("self.evlog_records.append((Q_e, Q_t, Q_f))", e.call) is not None and pmatch("self.evlog_records.append((Q_e, Q_t, Q_f))", e.call)["e"] == lp[0][0][0])
    ctx.check(ok, "C33.debug-wrapper-all-sites", apps[0][1].site if apps else fn.site, "VerilogDebugWrapper.evlog_records", found="; ".join(f"{tstr(e.call)[:80]} over {[tstr(l[1]) for l in loops(e)]} if {fstr(py_guard(e))}" for _, e in apps) or "no site recorded",
              required="(event, trigger, fields) is recorded for every element of get_emitted_events(), unconditionally")
    # the packed trigger vector: bit k is the trigger of the k-th recorded site, driven combinationally
    from ..stage import HwAssign, Store

    okp = False
    detail = "self.evlog_triggers is never assigned"
    for ex, st in fn.facts(Store, lambda s: s.target == ("a", ("self",), "evlog_triggers") and s.value[0] == "obj"):
        o = ex.obj(st.value)
        mw = pmatch("Signal(len(self.evlog_records), name=Q_n)", o.ctor) or pmatch("Signal(len(self.evlog_records))", o.ctor) if o is not None else None
        ws = [h for h in ex.of(HwAssign) if h.lhs == st.value]
        detail = f"{tstr(o.ctor) if o is not None else '?'}; " + "; ".join(f"{tstr(h.domain)} += .eq({tstr(h.rhs)[:80]})" for h in ws)
        for h in ws:
            mc = pmatch("Cat(Q_g)", h.rhs)
            if (mw is not None and len(ws) == 1 and h.domain == ("c", "comb") and h.via == "eq" and mc is not None and mc["g"][0] == "lc" and len(mc["g"][3]) == 1
                    and mc["g"][3][0][1] == ("a", ("self",), "evlog_records") and not mc["g"][3][0][2]
                    and mc["g"][2] == ("i", (mc["g"][3][0][0][0] if isinstance(mc["g"][3][0][0], tuple) and mc["g"][3][0][0] and isinstance(mc["g"][3][0][0][0], tuple) else mc["g"][3][0][0]), ("c", 1))):
                okp = True
    ctx.check(okp, "C33.debug-wrapper-packed-triggers", fn.site, "VerilogDebugWrapper.evlog_triggers", found=detail,
              required="evlog_triggers = Signal(len(evlog_records)), comb += evlog_triggers.eq(Cat(trigger of every recorded site, in order))")
    recs = fn.facts(Effect, lambda e: pmatch("self.records.append(Q_x)", e.call) is not None)
    okr = any(len(loops(e)) == 1 and pmatch("logging.get_log_records(0)", loops(e)[0][1]) is not None and py_guard(e) is True for _, e in recs)
    ctx.check(okr, "C33.debug-wrapper-all-sites", recs[0][1].site if recs else fn.site, "VerilogDebugWrapper.records", found=f"{len(recs)} append(s)",
              required="a record is kept for every log record of every level, unconditionally", nontrivial=False)


def check(ctx):
    ctx.use(EMIT, LOG, SAMPLER, TEVLOG, CONSUMER, SCHEMA)
    debug_wrapper_reads_only(ctx)
    debug_wrapper_all_sites(ctx)
    capture_process(ctx)
    from . import c33y

    c33y.event_tables(ctx)
    decoder(ctx)
    from . import c33x

    c33x.from_raw_typed(ctx)
    record_layout(ctx)
    sampler(ctx)
    emit_rules(ctx)
    consumer(ctx)


MUTANTS = [
    ("sampler-raw-bit-patterns", SAMPLER, "sink.emit_raw(cycle, site, self._values(site, field_readers))\n        else:", "sink.emit_raw(cycle, site, [read() for read in field_readers])\n        else:"),
    ("sampler-no-sign-extension", SAMPLER, "            if field.signed and field.width and value >> (field.width - 1):\n                value -= 1 << field.width\n", ""),
    ("sampler-sign-bit-off-by-one", SAMPLER, "value >> (field.width - 1)", "value >> field.width"),
    ("sampler-values-of-other-site", SAMPLER, "self.generated.schema.sites[site].fields", "self.generated.schema.sites[0].fields"),
    ("static-not-canonical", "transactron/evlog/event.py", "    return json.loads(json.dumps(value))\n", "    return value\n"),
    ("tuple-field-stays-list", "transactron/evlog/event.py", "        return tuple(raw)\n", "        return raw\n"),
    ("debug-wrapper-drives-undriven", GEN, "            sig = Signal.like(val)\n            m.d.comb += sig.eq(val)\n            return sig\n", "            if isinstance(val, Signal):\n                m.d.comb += val.eq(val.init)\n                return val\n            sig = Signal.like(val)\n            m.d.comb += sig.eq(val)\n            return sig\n"),
    ("capture-fields-before-trigger", TEVLOG, "                trigger = next(it)\n                field_values = [next(it) for _ in rec.fields]", "                field_values = [next(it) for _ in rec.fields]\n                trigger = next(it)"),
    ("capture-sample-order", TEVLOG, "chain.from_iterable((rec.trigger, *rec.fields.values()) for rec in records)", "chain.from_iterable((*rec.fields.values(), rec.trigger) for rec in records)"),
    ("capture-always-emits", TEVLOG, "                if trigger:\n                    sink.emit_raw(ticks_val, site, field_values)", "                sink.emit_raw(ticks_val, site, field_values)"),
    ("capture-site-zero", TEVLOG, "sink.emit_raw(ticks_val, site, field_values)", "sink.emit_raw(ticks_val, 0, field_values)"),
    ("schema-fields-sorted", SCHEMA, "        for name, value in rec.fields.items():\n            shape = value.shape()", "        for name, value in sorted(rec.fields.items()):\n            shape = value.shape()"),
    ("decode-wrong-site-class", LOG, "event = self._site_classes[site_idx].from_raw(dynamics, site.statics)", "event = self._site_classes[0].from_raw(dynamics, site.statics)"),
    ("save-swapped-columns", LOG, "                fp.write(json.dumps([cycle, site, values]) + \"\\n\")", "                fp.write(json.dumps([site, cycle, values]) + \"\\n\")"),
    ("writer-swapped-columns", LOG, "self._fp.write(json.dumps([cycle, site, list(values)]) + \"\\n\")", "self._fp.write(json.dumps([site, cycle, list(values)]) + \"\\n\")"),
    ("load-swapped", LOG, "                cycle, site, values = json.loads(line)\n                log.raw.append((cycle, site, values))", "                site, cycle, values = json.loads(line)\n                log.raw.append((cycle, site, values))"),
    ("sampler-packed-shifted", SAMPLER, "if packed >> site & 1:", "if packed >> (site + 1) & 1:"),
    ("sampler-wrong-index", SAMPLER, "                if trigger_reader():\n                    sink.emit_raw(cycle, site, self._values(site, field_readers))", "                if trigger_reader():\n                    sink.emit_raw(cycle, len(self._sites) - 1 - site, self._values(site, field_readers))"),
    ("emit-ungated", EMIT, "        m.d.comb += trigger.eq(Value.cast(when).any())\n        self.top_emit(ev, when=trigger, src_loc=get_src_loc(src_loc))", "        self.top_emit(ev, when=when, src_loc=get_src_loc(src_loc))"),
    ("consumer-unsorted", CONSUMER, "for rec in sorted(records, key=lambda rec: rec.cycle):", "for rec in records:"),
    ("consumer-sorted-by-site", CONSUMER, "sorted(records, key=lambda rec: rec.cycle)", "sorted(records, key=lambda rec: rec.source_name)"),
]
