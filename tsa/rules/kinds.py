"""Shared obligation: register / wire discipline of the local signals of a component.

The kind of a signal does not depend on the static configuration: a local signal that is registered in one
    configuration and combinational in another one is a one-cycle shift in one of them.  (A rule "reset_less signals are
registers" was tried and dropped: the pinned tree declares a combinational helper reset_less.)"""

from __future__ import annotations

from ..comp import is_sync
from ..stage import HwAssign
from ..term import subterms, tstr


def _base_obj(lhs):
    t = lhs
    while t is not None and t[0] in ("i", "a") and t[0] != "obj":
        t = t[1]
    return t if t is not None and t[0] == "obj" else None


def register_wire_discipline(ctx, pid: str, comp, cls: str):
    by_decl: dict = {}
    for ex in comp.configs:
        for h in ex.of(HwAssign):
            if h.lhs is None:
                continue
            base = _base_obj(h.lhs)
            if base is None:
                continue
            o = ex.obj(base)
            if o is None:
                continue
            # element signal of a list object
            decl = o
            if o.ctor[0] == "lc" and ex.obj(o.ctor[2]) is not None:
                decl = ex.obj(o.ctor[2])
            path = []
            t = h.lhs
            while t is not None and t[0] in ("i", "a"):
                if t[0] == "a":
                    path.append(t[2])
                t = t[1]
            key = (decl.site, (o.name or tstr(base)) + "".join("." + x for x in reversed(path)))
            by_decl.setdefault(key, {"decl": decl, "sync": [], "comb": []})["sync" if is_sync(h.domain) else "comb"].append(h)
    n = 0
    for (site, name), d in sorted(by_decl.items()):
        decl = d["decl"]
        kw = dict(decl.ctor[3]) if decl.ctor[0] == "call" else {}
        n += 1
        if d["sync"] and d["comb"]:
            ctx.bad(f"{pid}.signal-kind-consistent", d["comb"][0].site, f"{cls}.{name}.kind", found=f"clocked at {d['sync'][0].site}, combinational at {d['comb'][0].site}",
                    required="a signal is either a register or a wire, in every static configuration")
    return n
