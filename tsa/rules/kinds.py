"""Shared obligation: register / wire discipline of the local signals of a component.

The kind of a signal does not depend on the static configuration: a local signal that is registered in one
    configuration and combinational in another one is a one-cycle shift in one of them.  (A rule "reset_less signals are
registers" was tried and dropped: the pinned tree declares a combinational helper reset_less.)"""

from __future__ import annotations

from ..comp import is_sync
from ..stage import HwAssign
from ..term import subterms, tstr


def _base_obj(lhs):
    t = lhs
    while t is not None and t[0] in ("i", "a") and t[0] != "obj":
        t = t[1]
    return t if t is not None and t[0] == "obj" else None


def read_locals_driven(ctx, pid: str, comp, cls: str) -> int:
    """Every local signal (a `Signal(...)` object or a list of them created in elaborate) that is read somewhere in a
    static configuration is also driven in that configuration.  An undriven local signal is constant 0: reading it is
    either dead logic or a dropped assignment."""
    from ..stage import BodyDef, MethodCall, Return

    n = 0
    for ex in comp.configs:
        def is_local_signal(t):
            o = ex.obj(t)
            if o is None:
                return False
            c = o.ctor
            # lists (of lists) of signals
            for _ in range(3):
                if c[0] == "lc" and ex.obj(c[2]) is not None:
                    c = ex.obj(c[2]).ctor
                elif c[0] == "lc" and c[2][0] == "lc":
                    c = c[2]
            return c[0] == "call" and c[1] in (("n", "Signal"), ("a", ("n", "Signal"), "like"))

        written = set()
        for h in ex.of(HwAssign):
            if h.lhs is not None:
                b = _base_obj(h.lhs)
                if b is not None:
                    written.add(b)
        read = {}
        def note(term, site):
            if term is None:
                return
            for x in subterms(term):
                if isinstance(x, tuple) and x and x[0] == "obj" and is_local_signal(x):
                    read.setdefault(x, site)

        for f in ex.facts:
            for attr in ("rhs", "value", "call", "ready"):
                v = getattr(f, attr, None)
                if isinstance(v, tuple):
                    note(v, f.site)
            if isinstance(f, MethodCall):
                for a in f.args:
                    note(a, f.site)
                for _, a in f.kwargs:
                    note(a, f.site)
            for fr in f.frames:
                if fr[0] in ("if", "elif", "switch") and isinstance(fr[1], tuple):
                    note(fr[1], f.site)
            if isinstance(f, BodyDef):
                for v in f.kwargs.values():
                    if isinstance(v, tuple):
                        note(v, f.site)
        cfg = ",".join(f"{tstr(t)}={'T' if v else 'F'}" for t, v in ex.config)
        for x, site in sorted(read.items(), key=lambda kv: kv[0][1]):
            n += 1
            if x not in written:
                o = ex.obj(x)
                ctx.bad(f"{pid}.local-signal-driven", site, f"{cls}.{o.name or tstr(x)}.driver[{cfg}]", found=f"read at {site}, never assigned in this configuration",
                        required="a local signal that is read is driven in the same static configuration (an undriven signal is the constant 0)")
    return n


def address_fields(ctx, pid: str, rel: str, cls: str, depth_attr: str = "depth") -> int:
    """Every method layout field called `addr` declared in the constructor ranges over the whole depth."""
    from ..pm import pmatch
    from ..pyfacts import Fn
    from ..stage import Store

    fn = Fn(ctx.repo, rel, f"{cls}.__init__", pid)
    n = 0
    seen = set()
    for ex in fn.exs:
        terms = [s.value for s in ex.of(Store)] + [o.ctor for o in ex.objects.values()]
        for t in terms:
            for s in subterms(t):
                if isinstance(s, tuple) and len(s) == 3 and s[0] == "tuple" and s[1] == ("c", "addr"):
                    if s in seen:
                        continue
                    seen.add(s)
                    m = pmatch("range(Q_n)", s[2])
                    d = (ex.vardef(m["n"]) or m["n"]) if m else None
                    n += 1
                    ok = d is not None and (d == ("a", ("self",), depth_attr) or (d[0] == "p" and d[-1] == depth_attr))
                    ctx.check(ok, f"{pid}.address-field-range", fn.site, f"{cls}.layout.addr", found=tstr(s[2]), required=f"range({depth_attr}): every row is addressable")
    return n


def index_space_agreement(ctx, pid: str, comp, cls: str) -> int:
    """A list of signals / ports built as `[.. for _ in range(N)]` that is written element by element under a loop
    `for i in range(M)` (lhs `L[i]`): the loop covers the list, N == M.  A shorter loop leaves the last elements undriven,
    a shorter list makes the generator fail - or, with negative indices, alias."""
    from ..logic import lin_equal
    from ..pm import pmatch

    n = 0
    seen = set()
    for ex in comp.configs:
        for h in ex.of(HwAssign):
            if h.lhs is None:
                continue
            t = h.lhs
            while t[0] == "a":
                t = t[1]
            if t[0] != "i" or t[1][0] != "obj" or t[2][0] != "b":
                continue
            lst, b = t[1], t[2]
            o = ex.obj(lst)
            if o is None or o.ctor[0] != "lc" or len(o.ctor[3]) != 1:
                continue
            mN = pmatch("range(Q_n)", o.ctor[3][0][1])
            loop = [fr for fr in h.frames if fr[0] == "for" and b in fr[1]]
            mM = pmatch("range(Q_n)", loop[0][2]) if loop else None
            if mN is None or mM is None or any(s == ("n", "len") for s in subterms(mM["n"])) or any(s == ("n", "len") for s in subterms(mN["n"])):
                continue
            key = (o.site, h.site)
            if key in seen:
                continue
            seen.add(key)
            n += 1
            ctx.check(lin_equal(mN["n"], mM["n"]), f"{pid}.index-space", h.site, f"{cls}.{o.name}@{h.site.split(':')[-1]}", found=f"list of range({tstr(mN['n'])}) element(s), written under a loop over range({tstr(mM['n'])})",
                      required="the loop that writes a per-port list element by element covers exactly the list")
    return n


def register_wire_discipline(ctx, pid: str, comp, cls: str):
    by_decl: dict = {}
    for ex in comp.configs:
        for h in ex.of(HwAssign):
            if h.lhs is None:
                continue
            base = _base_obj(h.lhs)
            if base is None:
                continue
            o = ex.obj(base)
            if o is None:
                continue
            # element signal of a list object
            decl = o
            if o.ctor[0] == "lc" and ex.obj(o.ctor[2]) is not None:
                decl = ex.obj(o.ctor[2])
            path = []
            t = h.lhs
            while t is not None and t[0] in ("i", "a"):
                if t[0] == "a":
                    path.append(t[2])
                t = t[1]
            key = (decl.site, (o.name or tstr(base)) + "".join("." + x for x in reversed(path)))
            by_decl.setdefault(key, {"decl": decl, "sync": [], "comb": []})["sync" if is_sync(h.domain) else "comb"].append(h)
    n = 0
    for (site, name), d in sorted(by_decl.items()):
        decl = d["decl"]
        kw = dict(decl.ctor[3]) if decl.ctor[0] == "call" else {}
        n += 1
        if d["sync"] and d["comb"]:
            ctx.bad(f"{pid}.signal-kind-consistent", d["comb"][0].site, f"{cls}.{name}.kind", found=f"clocked at {d['sync'][0].site}, combinational at {d['comb'][0].site}",
                    required="a signal is either a register or a wire, in every static configuration")
    return n
