"""C23 - timing coherence of the multiport memories (a small age / latency inference over the extracted netlist).

Every value in these generators is a function of the user ports' signals of some *age*: a clocked assignment and a read
through an inner memory port make a value one cycle older, a combinational assignment keeps the age.  `ages(t)` is the set
of (source kind, age) pairs the term depends on, sources being the user ports' W.addr / W.en / W.data / R.addr / R.en
(lists of per-port structures are not told apart by index here: that is the job of the index rules).  An ideal synchronous
memory answers a read one cycle after the address was presented, so, whatever the internal organisation:

  write-port coherence   the address, enable and data presented to one inner write port belong to the same user write:
                         the user-write signals they depend on all have one age
  read-port coherence    an inner read port gets address and enable of one age; user read addresses reach it unregistered
                         (the inner read is the one cycle the answer may take)
  bypass coherence       a multiplexer whose condition compares a delayed read address with a delayed write address forwards
                         write data of that same age, under that write's enable; the read side of the condition is exactly
                         one cycle old; the condition is a conjunction of the address equality and enables
  hold multiplexer       the output stage selects by the read enable of the previous cycle between the new value and the
                         held one
  output                 the user read port's data is driven combinationally
  port completeness      every input of every inner port is driven
  output age             the user's read data depends on read address / enable of exactly the previous cycle and on what the
                         inner read ports return in the current one (write-side values are cut out of this: what they owe
                         to read ports is an artefact of not telling per-port list elements apart)
  bypass coverage        a write reaches an inner memory L cycles after it is presented; until the inner read can see it
                         (ages 2..L+1, or 2..L through a transparent inner read) a forwarding path of that age exists
  transparency           the age-1 (same cycle) forwarding exists exactly for the write ports in transparent_for

A statement moved between comb and sync, a dropped delay register, swapped multiplexer arms, a changed comparison or a
forwarding path taking data of another age than its address breaks one of these."""

from __future__ import annotations

from ..comp import is_sync
from ..pm import pmatch
from ..stage import Helper, HwAssign, Raise, Store, Submodule
from ..term import subterms, tstr


def _user_port(base):
    """'R' / 'W' if base denotes one of the memory's own (user) ports."""
    for kind, attr in (("R", "read_ports"), ("W", "write_ports")):
        lst = ("a", ("self",), attr)
        if base[0] == "i" and base[1] == lst:
            return kind
        if base[0] == "b" and len(base) > 2 and (base[2] == lst or base[2] == ("call", ("n", "enumerate"), (lst,), ())):
            return kind
        if base[0] == "i" and base[1][0] == "b" and len(base[1]) > 2 and base[1][2] == ("call", ("n", "enumerate"), (lst,), ()) and base[2] == ("c", 1):
            return kind
    return None


def _root(t):
    while isinstance(t, tuple) and t and t[0] == "i":
        t = t[1]
    return t


def _skeleton(t):
    """f'bank_{x}' -> ('bank_', None)"""
    if t[0] == "c":
        return (t[1],)
    if t[0] == "fstr":
        return tuple(p[1] if isinstance(p, tuple) and p and p[0] == "c" else (p if isinstance(p, str) else None) for p in t[1:])
    return None


class Net:
    def __init__(self, ex, cls):
        self.ex = ex
        self.cls = cls
        self.defs: dict = {}
        self.cut: frozenset = frozenset()
        self.ctrl: dict = {}
        self.sub: dict = {}
        self.memo: dict = {}
        self.busy: set = set()
        for s in ex.of(Submodule):
            sk = _skeleton(s.name) if isinstance(s.name, tuple) else None
            if sk is not None:
                self.sub[sk] = s.value
        for h in ex.of(HwAssign):
            if h.lhs is None or h.rhs is None:
                continue
            k = self.key(h.lhs)
            if k is not None:
                self.defs.setdefault(k, []).append((h.rhs, 1 if is_sync(h.domain) else 0, h))
                # the selectors of the enclosing If / Switch decide the value as well
                for fr in h.frames:
                    if fr[0] in ("if", "elif", "switch") and isinstance(fr[1], tuple):
                        self.ctrl.setdefault(k, []).append((fr[1], 1 if is_sync(h.domain) else 0, h))
        for s in ex.of(Store):
            if s.aug is not None and s.target[0] == "i" and _root(s.target)[0] == "lc":
                self.defs.setdefault(("acc", _root(s.target)), []).append((s.value, 0, s))

    # ---- classification ------------------------------------------------------------------------------------------------
    def elt_ctor(self, obj):
        o = self.ex.obj(obj)
        if o is None:
            return None
        c = o.ctor
        while c is not None and c[0] == "lc":
            inner = self.ex.obj(c[2])
            c = inner.ctor if inner is not None else (c[2] if c[2][0] == "lc" else None)
        return c

    def port_kind(self, obj):
        """'read' / 'write' if obj is an inner memory port (or a list of them), with the memory object."""
        c = self.elt_ctor(obj)
        if c is not None and c[0] == "call" and c[1][0] == "a" and c[1][2] in ("read_port", "write_port") and c[1][1] != ("self",):
            return c[1][2][:-5], c[1][1]
        return None, None

    def ports_of(self, mem, kind):
        out = []
        for oid, o in self.ex.objects.items():
            k, m = self.port_kind(("obj", oid))
            if k == kind and m == mem and o.ctor[0] == "call":
                out.append(("obj", oid))
        return out

    def submodule(self, t):
        m = pmatch("Q_m.submodules[Q_n]", t)
        if m is None:
            return None
        sk = _skeleton(m["n"])
        return self.sub.get(sk) if sk is not None else None

    def resolve_ports(self, x):
        """port objects denoted by x (an expression in front of .addr/.en/.data)"""
        r = _root(x)
        if r[0] == "obj":
            k, _ = self.port_kind(r)
            if k is not None:
                # a list object stands for its element object
                o = self.ex.obj(r)
                if o.ctor[0] == "lc" and self.ex.obj(o.ctor[2]) is not None:
                    return k, [o.ctor[2]]
                return k, [r]
        if r[0] == "a" and r[2] in ("read_ports", "write_ports"):
            mem = self.submodule(r[1])
            if mem is None and r[1][0] == "obj":
                mem = r[1]
            if mem is not None:
                kind = r[2][:-6]
                return kind, self.ports_of(mem, kind)
        return None, []

    def key(self, lhs):
        if lhs[0] == "a" and lhs[2] in ("addr", "en", "data"):
            base = lhs[1]
            if _user_port(base) == "R" and lhs[2] == "data":
                return ("out",)
            kind, ports = self.resolve_ports(base)
            if ports:
                return ("port", ports[0], lhs[2])
        if lhs[0] == "a" and _root(lhs[1])[0] == "obj":
            return ("attr", _root(lhs[1]), lhs[2])
        r = _root(lhs)
        if r[0] == "obj":
            return ("sig", r)
        return None

    # ---- ages ----------------------------------------------------------------------------------------------------------
    def ages(self, t) -> frozenset:
        if not isinstance(t, tuple) or not t:
            return frozenset()
        if t in self.memo:
            return self.memo[t]
        if t in self.busy:
            return frozenset()
        self.busy.add(t)
        try:
            r = self._ages(t)
        finally:
            self.busy.discard(t)
        self.memo[t] = r
        return r

    def refs(self, t) -> set:
        """keys of the local signals / accumulators a term mentions"""
        out = set()
        for s in subterms(t):
            if isinstance(s, tuple) and s:
                if s[0] == "obj" and ("sig", s) in self.defs:
                    out.add(("sig", s))
                if s[0] == "lc" and ("acc", s) in self.defs:
                    out.add(("acc", s))
        return out

    def write_side(self) -> frozenset:
        """Signals that (combinationally) make up the data of an inner write port: values of the write transaction."""
        wd = set()
        for k, ds in self.defs.items():
            if k[0] == "port" and k[2] == "data" and self.port_kind(k[1])[0] == "write":
                for rhs, _, _ in ds:
                    wd |= self.refs(rhs)
        work = list(wd)
        while work:
            k = work.pop()
            for rhs, d, _ in self.defs.get(k, ()):
                if d == 0:
                    for r in self.refs(rhs):
                        if r not in wd:
                            wd.add(r)
                            work.append(r)
        return frozenset(wd)

    def _of_defs(self, key):
        out = set()
        for rhs, d, _ in list(self.defs.get(key, ())) + list(self.ctrl.get(key, ())):
            out |= {(k, a + d) for k, a in self.ages(rhs)}
        if key in self.cut:
            # a value of the write transaction: what it owes to read ports is an artefact of merging per-port lists
            out = {(k, a) for k, a in out if k.startswith("W.")}
        return out

    def _ages(self, t) -> frozenset:
        k = t[0]
        if k in ("c", "n", "b", "p", "self", "loopvar", "lam", "unk"):
            return frozenset()
        if k == "a":
            base, f = t[1], t[2]
            up = _user_port(base)
            if up == "W" and f in ("addr", "en", "data"):
                return frozenset({("W." + f, 0)})
            if up == "R":
                return frozenset({("R." + f, 0)}) if f in ("addr", "en") else frozenset()
            if f in ("addr", "en", "data"):
                kind, ports = self.resolve_ports(base)
                if ports:
                    out = set()
                    for p in ports:
                        if f == "data" and kind == "read":
                            out |= {(s, a + 1) for s, a in self._of_defs(("port", p, "addr")) | self._of_defs(("port", p, "en"))}
                            out.add((f"M:{p[1]}", 0))  # pseudo source: the stored contents seen through this port
                        else:
                            out |= self._of_defs(("port", p, f))
                    return frozenset(out)
            r = _root(base)
            if r[0] == "obj":
                c = self.elt_ctor(r)
                if c is not None and c[0] == "call" and c[1] == ("n", "Encoder") and f in ("o", "n"):
                    return frozenset(self._of_defs(("attr", r, "i")))
                if ("attr", r, f) in self.defs:
                    return frozenset(self._of_defs(("attr", r, f)))
            return self.ages(base)
        if k == "obj":
            return frozenset(self._of_defs(("sig", t)))
        if k == "i":
            return self.ages(t[1])
        if k == "lc":
            out = set(self.ages(t[2]))
            out |= self._of_defs(("acc", t))
            return frozenset(out)
        if k == "v":
            d = self.ex.vardef(t)
            return self.ages(d) if d is not None else frozenset()
        if k == "ife":
            return self.ages(t[2]) | self.ages(t[3])
        if k == "call":
            out = set()
            if t[1][0] == "a":
                out |= self.ages(t[1][1])
            for a in t[2]:
                out |= self.ages(a)
            for _, a in t[3]:
                out |= self.ages(a)
            return frozenset(out)
        out = set()
        for x in t[1:]:
            if isinstance(x, tuple):
                out |= self.ages(x)
        return frozenset(out)


def _w(ag):
    return {(k, a) for k, a in ag if k.startswith("W.")}


def _r(ag):
    return {(k, a) for k, a in ag if k.startswith("R.")}


def _fmt(ag):
    return "{" + ", ".join(f"{k}@{a}" for k, a in sorted(ag)) + "}" if ag else "{}"


def _conj(c):
    if c[0] == "op" and c[1] == "&":
        out = []
        for x in c[2:]:
            out += _conj(x)
        return out
    return [c]


def timing(ctx, comp, ex, cls, cn) -> int:
    net = Net(ex, cls)
    n = 0
    # ---- inner ports -------------------------------------------------------------------------------------------------
    for oid, o in sorted(ex.objects.items()):
        p = ("obj", oid)
        kind, mem = net.port_kind(p)
        if kind is None or o.ctor[0] != "call":
            continue
        name = o.name or tstr(p)
        need = ("addr", "en", "data") if kind == "write" else ("addr", "en")
        got = {f: net.defs.get(("port", p, f), []) for f in need}
        n += 1
        missing = [f for f in need if not got[f]]
        ctx.check(not missing, "C23.port-complete", o.site, f"{cls}.{name}[{cn}]", found="undriven: " + ", ".join(missing) if missing else "all inputs driven",
                  required=f"every input ({', '.join(need)}) of an inner {kind} port is driven")
        if missing:
            continue
        ag = {f: frozenset().union(*[{(k, a + d) for k, a in net.ages(rhs)} for rhs, d, _ in got[f]]) for f in need}
        site = got["addr"][0][2].site
        if kind == "write":
            ctl = {a for _, a in _w(ag["addr"]) | _w(ag["en"])}
            dat = {a for _, a in _w(ag["data"])}
            ok = len(ctl) == 1 and dat <= ctl and not _r(ag["addr"]) and not _r(ag["en"])
            # ... and they are the user's write address / enable / (for a memory of the user's row shape) data
            mo = ex.obj(mem)
            row_shaped = mo is not None and mo.ctor[0] == "call" and dict(mo.ctor[3]).get("shape") == ("a", ("self",), "shape")
            ok = ok and any(k == "W.addr" for k, _ in ag["addr"]) and any(k == "W.en" for k, _ in ag["en"]) and (not row_shaped or any(k == "W.data" for k, _ in ag["data"]))
            # a bank port created with the granularity of user port k takes that port's enable mask as it is (a reduced or
            # foreign enable has a different width: the mask is cut to its lowest bit)
            gk = dict(o.ctor[3]).get("granularity")
            if gk is not None and gk[0] == "a" and gk[2] == "granularity" and _user_port(gk[1]) == "W":
                n += 1
                ens = [rhs for rhs, _, _ in got["en"]]
                ctx.check(ens == [("a", gk[1], "en")], "C23.granular-enable", got["en"][0][2].site, f"{cls}.{name}.en[{cn}]", found="; ".join(tstr(x) for x in ens),
                          required=f"{tstr(gk[1])}.en itself: the port was created with that user port's granularity, its enable is that port's granule mask")
            ctx.check(ok, "C23.write-port-coherent", site, f"{cls}.{name}[{cn}]", found=f"addr {_fmt(ag['addr'])}, en {_fmt(ag['en'])}, data {_fmt(_w(ag['data']))}",
                      required="address, enable and data of an inner write port come from user-write signals of one age")
        else:
            ages_ = {a for _, a in ag["addr"] | ag["en"]}
            kinds_ok = all(k.endswith(".addr") for k, _ in ag["addr"]) and all(k.endswith(".en") for k, _ in ag["en"])
            ok = len(ages_) == 1 and kinds_ok and all(a == 0 for k, a in ag["addr"] | ag["en"] if k.startswith("R.")) and bool(ag["addr"])
            ctx.check(ok, "C23.read-port-coherent", site, f"{cls}.{name}[{cn}]", found=f"addr {_fmt(ag['addr'])}, en {_fmt(ag['en'])}",
                      required="address and enable of an inner read port have one age; user read addresses and enables reach it unregistered")
    # ---- multiplexers ------------------------------------------------------------------------------------------------
    seen = set()
    present: dict = {}
    srcs = [(h.rhs, h.site) for h in ex.of(HwAssign) if h.rhs is not None] + [(s.value, s.site) for s in ex.of(Store)] + [(hp.call, hp.site) for hp in ex.of(Helper)]
    for t, site in srcs:
        for s in subterms(t):
            pairs = []
            m = pmatch("Mux(Q_c, Q_a, Q_b)", s)
            if m is not None:
                pairs.append((m["c"], m["a"], m["b"], "Mux"))
            m2 = pmatch("OneHotMux.create(Q_m, Q_l, Q_d)", s) or pmatch("OneHotMux.create(Q_m, Q_l)", s)
            if m2 is not None and m2["l"][0] == "lc" and m2["l"][2][0] == "tuple" and len(m2["l"][2]) == 3:
                pairs.append((m2["l"][2][1], m2["l"][2][2], m2.get("d"), "OneHotMux input"))
            for c, a, b, what in pairs:
                if (c, a, b) in seen:
                    continue
                seen.add((c, a, b))
                n += 1
                ac, aa = net.ages(c), net.ages(a)
                cons = f"{cls}.{what}[{tstr(c)[:70]}][{cn}]"
                if _w(ac):
                    wa = {x for _, x in _w(ac)}
                    for k_, _a in (net.ages(b) if b is not None else frozenset()):
                        if k_.startswith("M:"):
                            present.setdefault(int(k_[2:]), set()).update(wa)
                    atoms = _conj(c)
                    eqs = [x for x in atoms if x[0] == "op" and x[1] == "=="]
                    ok_form = len(eqs) == 1 and all(x is eqs[0] or x[0] in ("obj", "i", "a") for x in atoms)
                    ok_eq = False
                    if len(eqs) == 1:
                        s1, s2 = net.ages(eqs[0][2]), net.ages(eqs[0][3])
                        kinds = [{k for k, _ in s1}, {k for k, _ in s2}]
                        ok_eq = {"R.addr"} in kinds and {"W.addr"} in kinds
                    en_atoms = [x for x in atoms if not (x[0] == "op" and x[1] == "==")]
                    ok_en = any({k for k, _ in net.ages(x)} == {"W.en"} for x in en_atoms) and all({k for k, _ in net.ages(x)} <= {"W.en", "R.en"} and net.ages(x) for x in en_atoms)
                    ok_age = len(wa) == 1 and {x for _, x in _w(aa)} == wa and all(x == 1 for _, x in _r(ac))
                    ctx.check(ok_form and ok_eq and ok_en and ok_age, "C23.bypass-coherent", site, cons,
                              found=f"condition {tstr(c)[:160]} with {_fmt(ac)} forwards {tstr(a)[:60]} with {_fmt(_w(aa))}",
                              required="(read address one cycle old == write address of age k) & enables of the same ages, forwarding the write data of age k")
                elif _r(ac):
                    # output stage: previous cycle's read enable selects the new value, else the held one
                    ab = net.ages(b) if b is not None else frozenset()
                    # the held value is a register loaded from the user's read data itself
                    hd = net.defs.get(("sig", _root(b)), []) if b is not None and _root(b)[0] == "obj" else []
                    held = bool(hd) and all(d == 1 and rhs[0] == "a" and rhs[2] == "data" and _user_port(rhs[1]) == "R" for rhs, d, _ in hd)
                    ok = ac == frozenset({("R.en", 1)}) and bool(aa) and not ab and held
                    ctx.check(ok, "C23.hold-mux", site, cons, found=f"condition {_fmt(ac)}, selected {_fmt(aa)[:120]}, otherwise {_fmt(ab)}",
                              required="Mux(read enable of the previous cycle, new value, held value)")
                else:
                    ctx.bad("C23.mux-condition", site, cons, found=f"condition {tstr(c)[:120]} depends on no port signal",
                            required="a multiplexer in the data path selects by port signals (a constant condition makes one arm dead)")
    # ---- every inner read port that answers a user read: addressed by it, consulted, and its blind window bypassed --------
    out_ages = frozenset(net._of_defs(("out",)))
    for oid, o in sorted(ex.objects.items()):
        p = ("obj", oid)
        kind, mem = net.port_kind(p)
        if kind != "read" or o.ctor[0] != "call":
            continue
        a_addr = frozenset(net._of_defs(("port", p, "addr")))
        users = [p2 for p2 in net.ports_of(mem, "read")]
        # read ports of one memory object are told apart only by what drives them: a port that is driven by user read
        # addresses somewhere is a real read port
        if not any(k == "R.addr" for k, _ in a_addr):
            if not net.defs.get(("port", p, "addr")) or not net.defs.get(("out",)):
                continue
            # a port driven only by write addresses is a feedback port - unless nothing else answers the user read
            siblings_real = any(any(k == "R.addr" for k, _ in net._of_defs(("port", q, "addr"))) for oid2 in ex.objects for q in [("obj", oid2)] if net.port_kind(q)[0] == "read")
            n += 1
            ctx.check(siblings_real, "C23.read-addressed", o.site, f"{cls}.{o.name}[{cn}]", found=f"no inner read port is addressed by the user's read address (this one: {_fmt(a_addr)})",
                      required="a user read is answered through an inner read port that gets the user's read address")
            continue
        if not net.defs.get(("out",)):
            continue
        n += 1
        ctx.check((f"M:{oid}", 1) in out_ages or any(k == f"M:{oid}" for k, _ in out_ages), "C23.read-consulted", o.site, f"{cls}.{o.name}[{cn}]",
                  found=f"the user's read data depends on {_fmt({x for x in out_ages if x[0].startswith('M:')})}", required="the contents read through this inner port reach the user's read data")
        wports = net.ports_of(mem, "write")
        Ls = {a for w in wports for k, a in net._of_defs(("port", w, "addr")) if k == "W.addr"}
        if len(Ls) != 1:
            continue
        L = next(iter(Ls))
        tf = dict(o.ctor[3]).get("transparent_for")

        def may_be_empty(t):
            if t is None:
                return True
            if t[0] == "ife":
                return may_be_empty(t[2]) or may_be_empty(t[3])
            return t in (("list",), ("tuple",)) or t[0] not in ("list", "tuple")

        tau = 0 if may_be_empty(tf) else 1
        needed = set(range(2, L + 2)) if tau == 0 else set(range(2, L + 1))
        have = present.get(oid, set())
        n += 1
        ctx.check(needed <= have, "C23.bypass-coverage", o.site, f"{cls}.{o.name}[{cn}]",
                  found=f"writes reach this memory {L} cycle(s) after they are presented, the inner read is {'transparent' if tau else 'not transparent'}; bypassed write ages {sorted(have) or 'none'}",
                  required=f"every write that is presented but not yet visible through the inner read is forwarded: ages {sorted(needed) or 'none'}")
    # ---- transparency: the same-cycle write (age 1) is forwarded exactly for the write ports the read port names -------------
    from ..logic import atoms_of, implies, to_formula

    def member_atom(t):
        m_ = pmatch("Q_w in Q_r.transparent_for", t)
        return m_ is not None and _user_port(m_["w"]) == "W" and _user_port(m_["r"]) == "R"

    for t, v in ex.config:
        if member_atom(t):
            for oid, o in sorted(ex.objects.items()):
                p = ("obj", oid)
                if net.port_kind(p)[0] != "read" or o.ctor[0] != "call" or not any(k == "R.addr" for k, _ in net._of_defs(("port", p, "addr"))):
                    continue
                n += 1
                has1 = 1 in present.get(oid, set())
                ctx.check(has1 == bool(v), "C23.transparency-polarity", o.site, f"{cls}.{o.name}[{cn}]", found=f"write port {'in' if v else 'not in'} transparent_for: same-cycle write {'forwarded' if has1 else 'not forwarded'}",
                          required="a write of the same cycle is forwarded to a read port iff that write port is in the read port's transparent_for")
    for t, site in srcs:
        for s in subterms(t):
            m2 = pmatch("OneHotMux.create(Q_m, Q_l, Q_d)", s) or pmatch("OneHotMux.create(Q_m, Q_l)", s)
            if m2 is not None and m2["l"][0] == "lc" and ("tp", s) not in seen:
                seen.add(("tp", s))
                conds = [c_ for g_ in m2["l"][3] for c_ in g_[2]]
                if any("transparent_for" in tstr(c_) for c_ in conds) or _w(net.ages(m2["l"][2])):
                    n += 1
                    ctx.check(len(conds) == 1 and member_atom(conds[0]), "C23.transparency-polarity", site, f"{cls}.OneHotMux.inputs[{cn}]", found="inputs kept if " + (" and ".join(tstr(c_) for c_ in conds) or "always"),
                              required="the forwarding inputs are exactly those of the write ports in the read port's transparent_for")
    for oid, o in sorted(ex.objects.items()):
        if net.port_kind(("obj", oid))[0] != "read" or o.ctor[0] != "call":
            continue
        tf = dict(o.ctor[3]).get("transparent_for")
        if tf is not None and tf[0] == "ife":
            f = to_formula(tf[1])
            if f is False or ("c", None) in tf[1][2:]:
                continue  # no write port in this configuration: never transparent
            mem_atoms = [a for a in atoms_of(f) if member_atom(a)]
            n += 1
            ok = len(mem_atoms) == 1 and implies(f, ("atom", mem_atoms[0])) is None and tf[2][0] == "list" and len(tf[2]) == 2 and net.port_kind(_root(tf[2][1]))[0] == "write" and tf[3] == ("list",)
            ctx.check(ok, "C23.transparency-polarity", o.site, f"{cls}.{o.name}.transparent_for[{cn}]", found=tstr(tf)[:200],
                      required="the inner read port is transparent for the inner write port only if the user's write port is in the user's read port's transparent_for, and not otherwise")
    # ---- constants ---------------------------------------------------------------------------------------------------
    for (kk, *rest), ds in sorted(net.defs.items(), key=lambda kv: str(kv[0])):
        if kk == "port" and rest[1] == "en":
            for rhs, d, h in ds:
                if not net.ages(rhs):
                    n += 1
                    ctx.check(rhs in (("c", 1), ("c", True)) or pmatch("C(1)", rhs) is not None or pmatch("Const(1)", rhs) is not None, "C23.enable-constant", h.site, f"{cls}.{tstr(h.lhs)[:40]}[{cn}]", found=tstr(rhs),
                              required="an inner port that is not enabled by a user signal is always enabled")
        if kk == "acc":
            base = rest[0]
            n += 1
            ok0 = base[2] in (("c", 0),) or pmatch("Value.cast(0)", base[2]) is not None or pmatch("C(0)", base[2]) is not None or pmatch("Const(0)", base[2]) is not None
            ops = {s.aug for _, _, s in ds}
            ctx.check(ok0 or ops != {"^"}, "C23.xor-identity", ds[0][2].site, f"{cls}.xor-accumulator[{cn}]", found=f"starts from {tstr(base[2])}, folded with {sorted(ops)}",
                      required="a value folded with ^ starts from 0")
    # ---- output ------------------------------------------------------------------------------------------------------
    outs = net.defs.get(("out",), [])
    if not outs and any(isinstance(f_, Raise) for f_ in ex.facts):
        return n  # a configuration the generator rejects
    # the answer is exactly one cycle old: read address / enable of the previous cycle, inner read data of this cycle
    net2 = Net(ex, cls)
    net2.cut = net.write_side()
    oa = frozenset(net2._of_defs(("out",)))
    real = {oid for oid, o in ex.objects.items() if net.port_kind(("obj", oid))[0] == "read" and o.ctor[0] == "call" and any(k == "R.addr" for k, _ in net._of_defs(("port", ("obj", oid), "addr")))}
    late = sorted((k, a) for k, a in oa if (k.startswith("R.") and a != 1) or (k.startswith("M:") and int(k[2:]) in real and a != 0))
    if outs:
        n += 1
        ctx.check(not late, "C23.output-age", outs[0][2].site, f"{cls}.read_port.data[{cn}]", found=f"depends on {_fmt(frozenset(x for x in oa if not x[0].startswith('W.')))}",
                  required="the user's read data is a function of the read address / enable of the previous cycle (R.*@1) and of what the inner read ports return now (M:*@0): one cycle of latency, as an Amaranth memory")
    n += 1
    ok = bool(outs) and all(d == 0 for _, d, _ in outs)
    ctx.check(ok, "C23.output-combinational", outs[0][2].site if outs else comp.site, f"{cls}.read_port.data[{cn}]", found=f"{len(outs)} driver(s), " + ("all combinational" if ok else "clocked or missing"),
              required="the user read port's data is driven combinationally from values that are already one cycle old")
    return n
