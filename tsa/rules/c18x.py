"""C18, constructor obligations (found by the mutation sweep): MethodFilter keeps the default it is given;
MethodProduct's default combiner returns the first target's result with the first target's layout."""

from __future__ import annotations

import ast

from ..pm import pat, pmatch
from ..pyfacts import Fn
from ..stage import Store
from ..term import mk_op, tstr

TR = "transactron/lib/transformers.py"


def filter_default_kept(ctx, pid="C18"):
    fn = Fn(ctx.repo, TR, "MethodFilter.__init__", pid)
    names = [a.arg for a in fn.fi.node.args.args]
    if "default" not in names:
        ctx.bad(f"{pid}.filter-default-kept", fn.site, "MethodFilter.__init__.default", found=str(names), required="a `default` parameter")
        return
    dflt = fn.param(names.index("default"))
    n = 0
    for ex in fn.exs:
        given = dict(ex.config).get(mk_op("is", ("c", None), dflt))
        for s in ex.of(Store):
            if s.target != pat("self.default"):
                continue
            n += 1
            if given is False:
                ok = s.value == dflt
                req = "a given default is stored unchanged"
            elif given is True:
                ok = s.value[0] in ("obj", "call") and "layout_out" in tstr(ex.obj(s.value).ctor if s.value[0] == "obj" and ex.obj(s.value) else s.value)
                req = "without a default a zero signal of the target's result layout is used"
            else:
                ok = s.value[0] == "ife" or s.value == dflt
                req = "default kept"
            ctx.check(ok, f"{pid}.filter-default-kept", s.site, f"MethodFilter.__init__.default[given={given is False}]", found=tstr(s.value)[:120], required=req)
    ctx.floor(pid, "MethodFilter default stores", n, 1, fn.site)


def crossbar_create_provides(ctx, pid="C18"):
    """CrossbarConnectTrans.create: every given method provides the connector's method of the same side and position."""
    from ..stage import Relation, Return

    CN = "transactron/lib/connectors.py"
    fn = Fn(ctx.repo, CN, "CrossbarConnectTrans.create", pid)
    n = 0
    for ex in fn.exs:
        rets = [r for r in ex.of(Return) if r.callid is None]
        if not rets:
            continue
        n += 1
        cct = rets[0].value
        sides = {}
        for r in ex.of(Relation):
            if r.kind != "provide" or len(r.args) != 1:
                continue
            m = pmatch("Q_c.methods1[Q_i]", r.subject) or pmatch("Q_c.methods2[Q_i]", r.subject)
            if m is None or m["c"] != cct:
                continue
            side = "1" if pmatch("Q_c.methods1[Q_i]", r.subject) else "2"
            a = r.args[0]
            ok = a[0] == "i" and a[2] == m["i"] and ("methods" + side) in tstr(a[1]) and not [fr for fr in r.frames if fr[0] == "py"]
            sides[side] = sides.get(side, True) and ok
        ctx.check(sides == {"1": True, "2": True}, f"{pid}.crossbar-create-provides", rets[0].site, "CrossbarConnectTrans.create.provide", found=str(sides),
                  required="cct.methods1[i].provide(methods1[i]) and cct.methods2[j].provide(methods2[j]) for every i, j")
    ctx.floor(pid, "CrossbarConnectTrans.create configurations", n, 1, fn.site)


def product_default_combiner(ctx, pid="C18"):
    for cls in ("MethodProduct", "MethodTryProduct"):
        fn = Fn(ctx.repo, TR, f"{cls}.__init__", pid)
        found = None
        for st in ast.walk(fn.fi.node):
            if isinstance(st, ast.If) and isinstance(st.test, ast.Compare) and isinstance(st.test.left, ast.Name) and st.test.left.id == "combiner" and isinstance(st.test.ops[0], ast.Is):
                for a in st.body:
                    if isinstance(a, ast.Assign) and isinstance(a.value, ast.Tuple) and len(a.value.elts) == 2 and isinstance(a.value.elts[1], ast.Lambda):
                        found = a.value
        if found is None:
            if cls == "MethodProduct":
                ctx.bad(f"{pid}.product-default-combiner", fn.site, f"{cls}.__init__.combiner", found="no default combiner", required="a default combiner when none is given")
            continue
        lay, lam = found.elts
        params = [a.arg for a in lam.args.args]
        body = lam.body
        if cls == "MethodProduct":
            ok = (ast.unparse(lay) == "o_layouts[0]" and len(params) == 2 and isinstance(body, ast.Subscript) and isinstance(body.value, ast.Name) and body.value.id == params[1]
                  and isinstance(body.slice, ast.Constant) and body.slice.value == 0)
            req = "(o_layouts[0], lambda m, results: results[0]): layout and value of the first target"
        else:
            ok = ast.unparse(lay) in ("[]", "()") and isinstance(body, (ast.List, ast.Tuple, ast.Dict, ast.Constant))
            req = "the default combiner of a try-product returns nothing (empty layout)"
        ctx.check(ok, f"{pid}.product-default-combiner", fn.site, f"{cls}.__init__.combiner", found=ast.unparse(found)[:120], required=req, nontrivial=False)
