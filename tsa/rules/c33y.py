"""C33 - the @event decorator: which fields of an event are sampled (dynamic) and which are recorded once (static).

Every consumer of an event class (emission, capture, schema, decoding) goes by the tables the decorator stores on the
class.  A field missing from both tables is silently dropped from every log."""

from __future__ import annotations

from ..logic import atoms_of, equivalent, f_not, fstr
from ..pm import pmatch
from ..pyfacts import Fn, loops, py_guard
from ..stage import Effect, Return, Store
from ..term import subterms, tstr

EVENT = "transactron/evlog/event.py"
A = lambda t: ("atom", t)  # noqa: E731


def event_tables(ctx):
    ctx.use(EVENT)
    fn = Fn(ctx.repo, EVENT, "event", "C33", enter=("decorator",))
    # per field: exactly one of the two tables gets the name, decided by the annotation
    seen = {True: False, False: False}
    ok = True
    detail = []
    for ex in fn.exs:
        dec = [(t, v) for t, v in ex.config if t[0] == "i" and t[2] == ("c", 0) and pmatch("_split_hint(Q_h)", t[1]) is not None]
        if not dec:
            continue
        (t, is_static) = dec[0]
        hint = pmatch("_split_hint(Q_h)", t[1])["h"]
        apps = [e for e in ex.of(Effect) if pmatch("Q_l.append(Q_x)", e.call) is not None and loops(e)]
        stores = {s.target[2]: s for s in ex.of(Store) if not loops(s) and s.target[0] == "a"}
        tbl_dyn, tbl_sta = stores.get("_dynamic_fields"), stores.get("_static_fields")
        if len(apps) != 1 or tbl_dyn is None or tbl_sta is None:
            ok = False
            detail.append(f"static={is_static}: {len(apps)} append(s)")
            continue
        e = apps[0]
        f = loops(e)[0][0][0]
        lst = pmatch("Q_l.append(Q_x)", e.call)["l"]
        target = tbl_sta if is_static else tbl_dyn
        other = tbl_dyn if is_static else tbl_sta
        good = (pmatch("Q_l.append(Q_x)", e.call)["x"] == ("a", f, "name") and pmatch("fields(Q_d)", loops(e)[0][1]) is not None and hint == ("i", pmatch("_split_hint(Q_h)", t[1])["h"][1], ("a", f, "name"))
                and target.value == ("call", ("n", "tuple"), (lst,), ()) and other.value != target.value)
        ft = [s for s in ex.of(Store) if loops(s) and s.target[0] == "i" and s.target[2] == ("a", f, "name")]
        good = good and len(ft) == 1 and ft[0].value == ("i", t[1], ("c", 1)) and stores.get("_field_types") is not None and stores["_field_types"].value == ft[0].target[1]
        seen[is_static] = seen[is_static] or good
        ok = ok and good
        detail.append(f"static={is_static}: {tstr(e.call)} -> {tstr(target.target)} = {tstr(target.value)}")
        reg = [s for s in ex.of(Store) if s.target[0] == "i" and s.target[1] == ("n", "_event_registry")]
        rets = [r for r in ex.of(Return) if r.value[0] != "lam"]
        ok = ok and len(reg) == 1 and len(rets) == 1 and reg[0].value == rets[0].value and reg[0].target[2][0] == "p"
    ctx.check(ok and seen[True] and seen[False], "C33.event-field-tables", fn.site, "event.decorator", found="; ".join(detail) or "no per-field classification",
              required="every dataclass field goes to _static_fields if its annotation is Static[...], to _dynamic_fields otherwise, and its underlying type to _field_types")
    # the annotations are resolved with their extras (Annotated[T, static marker] must survive)
    okh = False
    for ex in fn.exs:
        for d in ex.vardefs.values():
            if d[0] == "call" and d[1] == ("n", "get_type_hints"):
                okh = dict(d[3]).get("include_extras") == ("c", True)
    ctx.check(okh, "C33.event-field-tables.hints", fn.site, "event.decorator.hints", found="get_type_hints(..., include_extras=True)" if okh else "extras dropped or hints not resolved",
              required="type hints are resolved with include_extras=True, otherwise the static marker of Annotated fields is lost")
    # stored values are converted back by the declared type: enums by value, bool by truth, everything else unchanged
    cv = Fn(ctx.repo, EVENT, "_convert_field", "C33")
    ft, raw = cv.param(0), cv.param(1)
    okc = True
    kinds_c = set()
    for ex in cv.exs:
        rets = [r for r in ex.of(Return) if r.callid is None]
        if len(rets) != 1:
            okc = False
            continue
        dec = {}
        for t, v in ex.config:
            if pmatch("isinstance(Q_t, type)", t) is not None:
                dec["type"] = v
            elif pmatch("issubclass(Q_t, enum.Enum)", t) is not None or pmatch("issubclass(Q_t, Enum)", t) is not None:
                dec["enum"] = v
            elif t[0] == "op" and t[1] == "is" and ("n", "bool") in t[2:] and ft in t[2:]:
                dec["bool"] = v
        v = rets[0].value
        # a field annotated as a tuple: the stored (JSON) form is a list (F44)
        tup = [vv for t, vv in ex.config if any(x == ("n", "tuple") for x in subterms(t)) and any(x == ft for x in subterms(t))]
        if dec.get("type") and dec.get("enum"):
            want, k = ("call", ft, (raw,), ()), "enum"
        elif dec.get("type") and dec.get("bool"):
            want, k = ("call", ("n", "bool"), (raw,), ()), "bool"
        elif any(tup) and all(vv for t, vv in ex.config if pmatch("isinstance(Q_r, list)", t) == {"r": raw}):
            want, k = ("call", ("n", "tuple"), (raw,), ()), "tuple"
        else:
            want, k = raw, "plain"
        kinds_c.add(k)
        okc = okc and v == want
    ctx.check(okc and kinds_c == {"enum", "bool", "plain", "tuple"}, "C33.field-conversion", cv.site, "_convert_field", found="; ".join(f"{[(tstr(t)[:40], v) for t, v in ex.config]} -> {tstr(r.value)}" for ex in cv.exs for r in ex.of(Return))[:400],
              required="field_type(raw) for enum types, bool(raw) for bool, tuple(raw) for a field annotated as a tuple, raw otherwise")
    # statics are kept in the representation a saved and loaded log has, from the moment they are registered: a value that
    # JSON changes (a tuple, a dict with int keys) would otherwise differ between the captured and the loaded log (F44)
    sr = Fn(ctx.repo, EVENT, "static_to_raw", "C33")
    val = sr.param(0)
    oks = True
    seen_s = set()
    for ex in sr.exs:
        rets = [r for r in ex.of(Return) if r.callid is None]
        en = [vv for t, vv in ex.config if pmatch("isinstance(Q_v, enum.Enum)", t) is not None or pmatch("isinstance(Q_v, Enum)", t) is not None]
        inner = ("a", val, "value") if en and en[-1] else val
        seen_s.add(bool(en and en[-1]))
        oks = oks and len(rets) == 1 and rets[0].value == ("call", ("a", ("n", "json"), "loads"), (("call", ("a", ("n", "json"), "dumps"), (inner,), ()),), ())
    ctx.check(oks and seen_s == {True, False}, "C33.static-canonical", sr.site, "static_to_raw", found="; ".join(tstr(r.value) for ex in sr.exs for r in ex.of(Return)),
              required="json.loads(json.dumps(value)) of the value (of its .value for an enum member): the stored static is what a loaded log holds")
    # the annotation splitter
    sp = Fn(ctx.repo, EVENT, "_split_hint", "C33")
    hint = sp.param(0)
    ok = True
    kinds = set()
    for ex in sp.exs:
        rets = [r for r in ex.of(Return) if r.callid is None]
        if len(rets) != 1:
            ok = False
            continue
        v = rets[0].value
        dec = {tstr(t): val for t, val in ex.config}
        is_static_form = any(val and (pmatch("get_origin(Q_h) is Static", t) is not None or pmatch("Q_m in get_args(Q_h)[1:]", t) is not None) for t, val in ex.config)
        annotated_ok = all(val for t, val in ex.config if pmatch("get_origin(Q_h) is Annotated", t) is not None) if any(pmatch("Q_m in get_args(Q_h)[1:]", t) is not None and val for t, val in ex.config) else True
        if is_static_form and annotated_ok:
            good = v == ("tuple", ("c", True), ("i", ("call", ("n", "get_args"), (hint,), ()), ("c", 0)))
            kinds.add("static")
        else:
            good = v == ("tuple", ("c", False), hint)
            kinds.add("dynamic")
        ok = ok and good
    ctx.check(ok and kinds == {"static", "dynamic"}, "C33.event-field-tables.split", sp.site, "_split_hint", found="; ".join(f"{[(tstr(t)[:50], v) for t, v in ex.config]} -> {tstr(r.value)}" for ex in sp.exs for r in ex.of(Return))[:400],
              required="(True, wrapped type) for Static[T] / Annotated[T, static marker], (False, the annotation itself) otherwise")
