"""C36 - bit-manipulation helpers: table / idiom clauses and bounded bit-vector evaluation of the one-expression
helpers.  Numeric results of the recursive helpers (count_trailing_zeros, cyclic_mask, binary_tree_reduce's loop)
are NOT decided."""

from .common import *
from .. import bv
from ..pm import pmatch, pat, has, find_all
from ..pyfacts import Fn, loops, py_guard
from ..term import rewrite
from . import C27

FUNCS = "transactron/utils/amaranth_ext/functions.py"
WIDTHS = range(1, 7)


def _ret(ctx, name):
    fn = Fn(ctx.repo, FUNCS, name, "C36")
    rets = fn.facts(Return, lambda r: r.callid is None)
    if len(rets) != 1:
        raise AnalysisError("C36", fn.site, f"{name}: expected a single return, found {len(rets)}")
    return fn, rets[0][0], rets[0][1]


def _inline_helpers(ctx, t, depth=4):
    """Replace calls f(x) of sibling one-expression helpers by their returned expression."""
    names = {"extract_lowest_set_bit", "clear_lowest_set_bit", "mask_from_first_set_bit", "mask_after_first_set_bit", "mask_until_first_set_bit", "mask_before_first_set_bit"}

    def f(x):
        if x[0] == "call" and x[1][0] == "n" and x[1][1] in names and len(x[2]) == 1 and depth > 0:
            fn, ex, r = _ret(ctx, x[1][1])
            from ..term import subst

            return _inline_helpers(ctx, subst(r.value, {fn.param(0): x[2][0]}), depth - 1)
        return None

    return rewrite(t, f)


def _reference(name, v, w):
    m = bv.mask(w)
    low = (v & -v).bit_length() - 1 if v else None
    frm = (m & ~((1 << low) - 1)) if low is not None else 0
    aft = (m & ~((1 << (low + 1)) - 1)) if low is not None else 0
    return {
        "extract_lowest_set_bit": (1 << low) if low is not None else 0,
        "clear_lowest_set_bit": v & ~(1 << low) if low is not None else 0,
        "mask_from_first_set_bit": frm,
        "mask_after_first_set_bit": aft,
        "mask_until_first_set_bit": m & ~aft,
        "mask_before_first_set_bit": m & ~frm,
    }[name]


def lowest_bit_family(ctx):
    for name in ("extract_lowest_set_bit", "clear_lowest_set_bit", "mask_from_first_set_bit", "mask_after_first_set_bit", "mask_until_first_set_bit", "mask_before_first_set_bit"):
        fn, ex, r = _ret(ctx, name)
        t = _inline_helpers(ctx, r.value)
        p = fn.param(0)
        bad = None
        n = 0
        try:
            for w in WIDTHS:
                for v in range(1 << w):
                    got = bv.ev(t, {p: bv.BV(v, w)})
                    n += 1
                    gv = got.v & bv.mask(w) if got.v >= 0 or True else got.v
                    if got.w is not None and got.w != w:
                        bad = f"width {w}: result has width {got.w}"
                        break
                    if gv != _reference(name, v, w):
                        bad = f"width {w}, value {v:#b}: got {gv:#b}, documented {_reference(name, v, w):#b}"
                        break
                if bad:
                    break
        except NotEvaluable as e:
            raise AnalysisError("C36.lowest-set-bit-family", r.site, f"{name}: returned expression outside the evaluable fragment: {e}")
        ctx.check(bad is None, "C36.lowest-set-bit-family", r.site, name, found=tstr(t) + ("" if bad is None else "  " + bad) + f"  [{n} (width, value) pairs]",
                  required="equals the documented function of the lowest set bit for every value of widths 1..6 (bit-vector evaluation of the returned expression)")


def mod_incr(ctx, pid="C36"):
    """Per configuration of mod_incr: for every modulus 1..16 that selects it (integer evaluation of the python-level
    test), the returned expression agrees with (sig + 1) % mod for every sig < mod."""
    from ..logic import evalt
    from .modarith import shortcut_only_for_powers_of_two

    ctx.use(FUNCS)
    fn = Fn(ctx.repo, FUNCS, "mod_incr", pid)
    sig, mod = fn.param(0), fn.param(1)
    covered = set()
    n = 0
    for ex in fn.exs:
        rets = [r for r in ex.of(Return) if r.callid is None]
        if len(rets) != 1:
            raise AnalysisError(pid, fn.site, f"mod_incr: {len(rets)} returns in one configuration")
        r = rets[0]
        try:
            mods = [m for m in range(1, 17) if all(bool(evalt(t, {mod: m})) == v for t, v in ex.config)]
        except NotEvaluable as e:
            raise AnalysisError(pid, r.site, f"mod_incr: cannot evaluate the branch test ({e})")
        covered.update(mods)
        if not mods:
            continue
        n += 1
        val = C27.strip_casts(ex, r.value)
        ref = ("op", "%", ("op", "+", sig, ("c", 1)), mod)
        check_agree(ctx, f"{pid}.mod-incr", r.site, f"mod_incr[mod in {mods}]", val, ref, {mod: mods}, {sig: (0, ("op", "-", mod, ("c", 1)))}, "(sig + 1) mod `mod` for every sig < mod")
        if not has("Mux(Q_a, Q_b, Q_c)", val):
            shortcut_only_for_powers_of_two(ctx, f"{pid}.mod-incr-guard", r.site, "mod_incr.pow2-guard", ex, mod)
    ctx.check(covered == set(range(1, 17)), f"{pid}.mod-incr-total", fn.site, "mod_incr.coverage", found=f"moduli handled: {sorted(covered)}", required="every modulus 1..16 selects a configuration")
    ctx.floor(pid, "mod_incr configurations", n, 2, fn.site)


def reductions(ctx):
    table = {
        "sum_value": ("operator.add", "C(0, 0)"),
        "or_value": ("operator.or_", "C(0, 0)"),
        "and_value": ("operator.and_", "C(-1)"),
    }
    for name, (op, neutral) in table.items():
        fn, ex, r = _ret(ctx, name)
        m = pmatch("binary_tree_reduce(*Q_v, neutral=Q_n, operator=Q_o)", r.value)
        ok = m is not None and m["o"] == pat(op) and m["n"] == pat(neutral) and m["v"] == ("p", fn.fi.qualname, "*", "values")
        ctx.check(ok, "C36.reduction-table", r.site, name, found=tstr(r.value), required=f"binary_tree_reduce(*values, neutral={neutral}, operator={op})")
    for name, op in (("min_value", "operator.lt"), ("max_value", "operator.gt")):
        fn, ex, r = _ret(ctx, name)
        m = pmatch("generic_min_value(*Q_v, operator=Q_o)", r.value)
        ctx.check(m is not None and m["o"] == pat(op), "C36.reduction-table", r.site, name, found=tstr(r.value), required=f"generic_min_value(*values, operator={op})")
    fn = Fn(ctx.repo, FUNCS, "generic_min_value.binary_min", "C36")
    rets = fn.facts(Return, lambda r: r.callid is None)
    v1, v2 = fn.param(0), fn.param(1)
    ok = len(rets) == 1 and pmatch("Mux(operator(Q_a, Q_b), Q_a, Q_b)", rets[0][1].value) == {"a": v1, "b": v2}
    ctx.check(ok, "C36.binary-min", fn.site, "generic_min_value.binary_min", found="; ".join(tstr(r.value) for _, r in rets), required="Mux(operator(v1, v2), v1, v2): keeps v1 when it is the smaller (resp. greater) one")
    fn, ex, r = _ret(ctx, "popcount")
    s = fn.param(0)
    m = pmatch("binary_tree_reduce(*Q_bits, neutral=Q_n, operator=operator.add)[:bits_for(len(Q_s))]", r.value)
    ok = m is not None and m["s"] == s and m["bits"][0] == "lc" and m["bits"][2] == ("i", s, m["bits"][3][0][0]) and pmatch("range(len(Q_s))", m["bits"][3][0][1]) == {"s": s}
    ctx.check(ok, "C36.popcount", r.site, "popcount", found=tstr(r.value), required="sum of all bits s[i], truncated to bits_for(len(s)) bits (can hold the value len(s))")
    fn, ex, r = _ret(ctx, "count_leading_zeros")
    ctx.check(pmatch("count_trailing_zeros(Q_s[::-1])", r.value) == {"s": fn.param(0)}, "C36.clz", r.site, "count_leading_zeros", found=tstr(r.value), required="count_trailing_zeros of the bit-reversed value")


def mux_rules(ctx):
    fn, ex, r = _ret(ctx, "mux")
    sel, v1, v0 = fn.param(0), fn.param(1), fn.param(2)
    m = pmatch("switch_value(Q_s, Q_cases, src_loc=Q_l)", r.value)
    ok = m is not None and m["s"] == sel and m["cases"][0] == "list" and all(c[0] == "tuple" and len(c) == 3 and c[1][0] == "c" and (c[1][1] is None or isinstance(c[1][1], int)) for c in m["cases"][1:])
    if ok:
        # the case list read as a table (first matching key wins, None = default), for every selector value 0..7
        for s in range(8):
            pick = next((c[2] for c in m["cases"][1:] if c[1][1] is None or c[1][1] == s), None)
            ok = ok and pick == (v0 if s == 0 else v1)
    ctx.check(ok, "C36.mux-polarity", r.site, "mux", found=tstr(r.value), required="sel == 0 selects val0, anything else val1")
    fn = Fn(ctx.repo, FUNCS, "switch_value", "C36")
    rets = fn.facts(Return, lambda r: r.callid is None)
    ok = False
    for ex, r in rets:
        sv = None
        for d in list(ex.vardefs.values()) + [r.value]:
            for mm in find_all("SwitchValue(Q_t, Q_c, src_loc=Q_l)", d):
                sv = mm
        if sv and sv["t"] == fn.param(0) and sv["c"][0] == "lc":
            lc = sv["c"]
            z = pmatch("zip(Q_cases, Q_vals)", lc[3][0][1])
            ok = z is not None and lc[2][0] == "tuple" and lc[2][1] == ("i", ("i", z["cases"], lc[3][0][0]), ("c", 0)) and lc[2][2] == ("i", z["vals"], lc[3][0][0])
    ctx.check(ok, "C36.switch-value-pairing", fn.site, "switch_value", found="keys zipped with the uniformized values positionally" if ok else "pairing not established", required="case k keeps its key and gets the k-th (shape-unified) value")


def check(ctx):
    ctx.use(FUNCS)
    lowest_bit_family(ctx)
    mod_incr(ctx)
    C27.check_mod_add(ctx, "C36")
    reductions(ctx)
    mux_rules(ctx)
    from . import c36x

    c36x.counting(ctx)
    c36x.masks(ctx)


MUTANTS = [
    ("extract-lowest-plain-and", FUNCS, "    return (value & -value)[: len(value)]", "    return (value & ~value)[: len(value)]"),
    ("clear-lowest-plus", FUNCS, "    return (value & (value - 1))[: len(value)]", "    return (value & (value + 1))[: len(value)]"),
    ("mask-from-xor", FUNCS, "    return (value | -value)[: len(value)]", "    return (value ^ -value)[: len(value)]"),
    ("mask-after-no-shift", FUNCS, "    return (mask_from_first_set_bit(value) << 1)[: len(value)]", "    return (mask_from_first_set_bit(value))[: len(value)]"),
    ("mask-until-from", FUNCS, "    return ~mask_after_first_set_bit(value)", "    return ~mask_from_first_set_bit(value)"),
    ("mask-before-after", FUNCS, "    return ~mask_from_first_set_bit(value)", "    return ~mask_after_first_set_bit(value)"),
    ("mod-incr-wrap-late", FUNCS, "    return Mux(sig == mod - 1, 0, sig + 1)", "    return Mux(sig == mod, 0, sig + 1)"),
    ("mod-incr-pow2-mask", FUNCS, "        return (sig + 1) & (mod - 1)\n    return Mux", "        return (sig + 1) & mod\n    return Mux"),
    ("and-neutral-zero", FUNCS, "return binary_tree_reduce(*values, neutral=C(-1), operator=operator.and_)", "return binary_tree_reduce(*values, neutral=C(0, 0), operator=operator.and_)"),
    ("or-is-and", FUNCS, "return binary_tree_reduce(*values, neutral=C(0, 0), operator=operator.or_)", "return binary_tree_reduce(*values, neutral=C(0, 0), operator=operator.and_)"),
    ("min-uses-gt", FUNCS, "    return generic_min_value(*values, operator=operator.lt)", "    return generic_min_value(*values, operator=operator.gt)"),
    ("binary-min-swapped", FUNCS, "        return Mux(operator(v1, v2), v1, v2)", "        return Mux(operator(v1, v2), v2, v1)"),
    ("mux-polarity", FUNCS, "    return switch_value(sel, [(0, val0), (None, val1)], src_loc=1)", "    return switch_value(sel, [(0, val1), (None, val0)], src_loc=1)"),
    ("popcount-too-narrow", FUNCS, "    )[: bits_for(len(s))]", "    )[: bits_for(len(s) - 1)]"),
    ("clz-no-reverse", FUNCS, "    return count_trailing_zeros(s[::-1])", "    return count_trailing_zeros(s)"),
]
