"""C23 / C21: the ILVT (which bank holds the live value of a row) stores a write-port index per row; its entry shape
must be able to hold every write-port index (binary coding) resp. one bit per write port (one-hot coding).  Decided by
evaluating the declared shape expression for 1..9 write ports."""

from __future__ import annotations

from ..front import AnalysisError
from ..logic import NotEvaluable
from ..pm import pat, pmatch
from ..term import tstr

NPORTS = ("call", ("n", "len"), (pat("self.write_ports"),), ())


def _ev(t, n):
    if t == NPORTS:
        return n
    if t[0] == "c" and isinstance(t[1], int):
        return t[1]
    if t[0] == "op" and t[1] in ("+", "-", "*") and len(t) >= 4:
        xs = [_ev(x, n) for x in t[2:]]
        r = xs[0]
        for x in xs[1:]:
            r = {"+": r + x, "-": r - x, "*": r * x}[t[1]]
        return r
    if t[0] == "call" and t[1] == ("n", "bits_for") and len(t[2]) == 1:
        k = _ev(t[2][0], n)
        return max(1, k.bit_length()) if k >= 0 else (-k).bit_length() + 1
    if t[0] == "call" and t[1] == ("n", "ceil_log2") and len(t[2]) == 1:
        k = _ev(t[2][0], n)
        return (k - 1).bit_length() if k > 0 else 0
    raise NotEvaluable(tstr(t))


def ilvt_entry_width(ctx, ex, pid="C23") -> int:
    ilvt = [o for o in ex.objects.values() if o.ctor[0] == "call" and o.ctor[1] == pat("self.memory_type") and "shape" in dict(o.ctor[3])]
    if not ilvt:
        return 0
    o = ilvt[0]
    shape = dict(o.ctor[3]).get("shape")
    onehot = dict(ex.config).get(pat("self.memory_type == OneHotCodedILVT"))
    binary = any(v for t, v in ex.config if tstr(t) in ("(self.memory_type == MultiportXORMemory)", "(memory.Memory == self.memory_type)"))
    if shape is None:
        raise AnalysisError(pid, o.site, "ILVT constructed without a shape")
    bad = None
    try:
        for n in range(1, 10):
            w = _ev(shape, n)
            if binary and (1 << w) < n:
                bad = f"{n} write ports: {w} bit(s) cannot hold bank index {n - 1}"
                break
            if not binary and onehot and w < n:
                bad = f"{n} write ports: {w} bit(s) for a one-hot bank code"
                break
    except NotEvaluable as e:
        raise AnalysisError(pid, o.site, f"ILVT shape {tstr(shape)} outside the evaluable fragment ({e})")
    kind = "binary" if binary else ("one-hot" if onehot else "other")
    ctx.check(bad is None, f"{pid}.ilvt-entry-width", o.site, f"MultiportILVTMemory.ilvt.shape[{kind}]", found=tstr(shape) + ("" if bad is None else "  " + bad),
              required="the ILVT entry holds every write-port (bank) index: 2**shape >= len(write_ports) for the binary tables, one bit per port for the one-hot table (evaluated for 1..9 write ports)")
    return 1
