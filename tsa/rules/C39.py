"""C39 - RoundRobin arbiters grant fairly (structural part; the temporal bound is not decided)."""

from .common import *
from ..logic import eval_seq
from ..pm import pmatch, pat
from ..comp import guard_of, binders_of

ELAB = "transactron/utils/amaranth_ext/elaboratables.py"
SIZES = range(1, 8)


def _scan_order(ctx, rule, site, cons, it, ibinder, count_term):
    """The scan emitted in iteration order `it` gives priority to the *last* emitted index (last writer wins):
    reversed iteration order must be i+1, i+2, ..., n-1, 0, ..., i-1 and cover every j != i."""
    for n in SIZES:
        for i in range(n):
            try:
                seq = eval_seq(it, {ibinder: i, count_term: n})
            except NotEvaluable as e:
                raise AnalysisError(rule, site, f"scan order not evaluable: {e}")
            prio = list(reversed(seq))
            want = [(i + d) % n for d in range(1, n)]
            if prio != want:
                ctx.bad(rule, site, cons, found=f"count={n}, current={i}: priority order {prio}", required=f"cyclic successor order {want} covering every other requester exactly once")
                return
    ctx.ok(rule, site, cons, found=f"priority order = i+1, ..., n-1, 0, ..., i-1 for all count < {SIZES.stop}", required="rotating priority starting after the current grant")


def check_onehot(ctx):
    comp = Component(ctx.repo, ELAB, "OneHotRoundRobin", rule="C39")
    from . import ranges as _rg1

    _rg1.port_declarations(ctx, "C39", comp, "OneHotRoundRobin", [("requests", "bits", "self.count", "one request bit per requester"), ("grant", "bits", "self.count", "one grant bit per requester")])
    comp.require_modelled("C39")
    cnt = pat("self.count")
    seen = {"reg": 0, "const": 0, "zero": 0, "other": 0}
    greg = None
    for ex in comp.configs:
        for h in ex.of(HwAssign):
            if h.lhs != pat("self.grant"):
                continue
            lp = [fr for fr in h.frames if fr[0] == "for"]
            cons = "OneHotRoundRobin.grant"
            if not lp or pmatch("OneHotSwitchDynamic(Q_m, Q_reg, default=True)", lp[0][2]) is None:
                ctx.bad("C39.onehot-grant-values", h.site, cons, found=f"grant <- {tstr(h.rhs)} outside the one-hot switch on the registered grant", required="grant is decided per registered grant position")
                continue
            ib = lp[0][1][0]
            reg = pmatch("OneHotSwitchDynamic(Q_m, Q_reg, default=True)", lp[0][2])["reg"]
            greg = reg
            is_default = dict(ex.config).get(("op", "is", ("c", None), ib)) if False else None
            decided = [v for t, v in ex.config if t == pat_is_none(ib)]
            in_default = bool(decided and decided[0])
            m = pmatch("1 << Q_j", h.rhs)
            if const_pred(0)(h.rhs):
                seen["zero"] += 1
                ctx.check(in_default and len(lp) == 1, "C39.onehot-grant-values", h.site, cons + ".zero", found="grant <- 0 " + ("in the default arm" if in_default else "outside the default arm"),
                          required="grant is 0 only when the registered grant is not one-hot (default arm)")
            elif h.rhs == reg:
                seen["reg"] += 1
                ctx.check(not in_default and len(lp) == 1 and not [fr for fr in h.frames if fr[0] == "if"], "C39.onehot-grant-values", h.site, cons + ".hold", found="grant <- registered grant (default of the arm)",
                          required="without requests the grant keeps its one-hot registered value")
            elif m is not None:
                seen["const"] += 1
                j = m["j"]
                ifs = [fr for fr in h.frames if fr[0] == "if"]
                ok = len(ifs) == 1 and ifs[0][1] == ("i", pat("self.requests"), j) and len(lp) == 2 and lp[1][1][0] == j and not in_default
                ctx.check(ok, "C39.onehot-guard-index", h.site, cons + ".request-guard", found=f"grant <- 1 << {tstr(j)} under {[tstr(fr[1]) for fr in ifs]}",
                          required="grant <- 1 << j only under If(requests[j]) with the same j: a granted input is requesting")
                if ok:
                    _scan_order(ctx, "C39.onehot-rotation", h.site, cons + ".scan", lp[1][2], ib, cnt)
            else:
                seen["other"] += 1
                ctx.bad("C39.onehot-grant-values", h.site, cons, found=f"grant <- {tstr(h.rhs)}", required="one-hot constant 1 << j, the registered grant, or 0 in the default arm")
    ctx.floor("C39", "onehot grant writers", sum(seen.values()), 3, comp.site)
    ctx.check(seen["reg"] >= 1 and seen["const"] >= 1 and seen["zero"] >= 1 and not seen["other"], "C39.onehot-grant-values", comp.site, "OneHotRoundRobin.grant.kinds", found=str(seen),
              required="hold / one-hot constant / zero writers all present")
    ex = comp.configs[0]
    v = [h for h in ex.of(HwAssign) if h.lhs == pat("self.valid")]
    ok = len(v) == 1 and not v[0].guards() and equivalent(to_formula(v[0].rhs), to_formula(pat("self.requests.any()"))) is None and not is_sync(v[0].domain)
    ctx.check(ok, "C39.onehot-valid", v[0].site if v else comp.site, "OneHotRoundRobin.valid", found="; ".join(f"{tstr(h.domain)} += valid.eq({tstr(h.rhs)})" for h in v),
              required="valid == any(requests), combinational, unconditional")
    if greg is not None:
        w = [h for h in ex.of(HwAssign) if h.lhs == greg]
        ok = len(w) == 1 and is_sync(w[0].domain) and not w[0].guards() and w[0].rhs == pat("self.grant")
        ctx.check(ok, "C39.onehot-state-update", w[0].site if w else comp.site, "OneHotRoundRobin.grant_reg", found="; ".join(f"{tstr(h.domain)} += grant_reg.eq({tstr(h.rhs)}) under {[fr[0] for fr in h.guards()]}" for h in w),
                  required="the registered grant follows the grant every cycle (unconditional sync assignment)")
        ga = comp.init_attr("grant")
        o = ex.obj(greg)
        ctx.check(ga is not None and pmatch("Signal(Q_n, init=1)", ga) is not None and o is not None and pmatch("Signal.like(self.grant)", o.ctor) is not None, "C39.onehot-reset", comp.site, "OneHotRoundRobin.grant.init",
                  found=f"grant = {tstr(ga) if ga else None}; grant_reg = {tstr(o.ctor) if o else None}", required="registered grant starts one-hot (Signal.like(grant), grant init=1)")


def pat_is_none(b):
    from ..term import mk_op

    return mk_op("is", ("c", None), b)


def check_binary(ctx):
    comp = Component(ctx.repo, ELAB, "RoundRobin", rule="C39")
    comp.require_modelled("C39")
    from . import ranges as _rg

    _rg.port_declarations(ctx, "C39", comp, "RoundRobin", [("requests", "bits", "self.count", "one request bit per requester"), ("grant", "index", "self.count", "the index of any requester")])
    ex = one_config(comp, "C39")
    cnt = pat("self.count")
    ws = [h for h in ex.of(HwAssign) if h.lhs == pat("self.grant")]
    ctx.floor("C39", "binary grant writers", len(ws), 2, comp.site)
    seqs = []
    dom = None
    for h in ws:
        cons = "RoundRobin.grant"
        sw = [fr for fr in h.frames if fr[0] == "switch"]
        cs = [fr for fr in h.frames if fr[0] == "case"]
        fs = [fr for fr in h.frames if fr[0] == "for"]
        ifs = [fr for fr in h.frames if fr[0] == "if"]
        ok = len(sw) == 1 and sw[0][1] == pat("self.grant") and len(cs) == 1 and len(fs) == 2 and len(ifs) == 1
        if ok:
            ib = fs[0][1][0]
            jb = fs[1][1][0]
            ok = cs[0][2] == (ib,) and fs[0][2] == ("call", ("n", "range"), (cnt,), ()) and ifs[0][1] == ("i", pat("self.requests"), jb) and h.rhs == jb
            seqs.append((h.seq, fs[1][2], ib))
            dom = h.domain
        ctx.check(ok, "C39.binary-guard-index", h.site, cons + ".request-guard", found=f"grant <- {tstr(h.rhs)} under {[tstr(fr[1]) for fr in ifs]} in case {[tstr(p) for fr in cs for p in fr[2]]}",
                  required="in case i (current grant), grant <- j only under If(requests[j]), same j: the next grant designates a requester")
    if seqs:
        seqs.sort()
        ib = seqs[0][2]
        chain = ("call", ("n", "chain"), tuple(s[1] for s in seqs), ())
        _scan_order(ctx, "C39.binary-rotation", ws[0].site, "RoundRobin.grant.scan", chain, ib, cnt)
    v = [h for h in ex.of(HwAssign) if h.lhs == pat("self.valid")]
    ok = len(v) == 1 and not v[0].guards() and equivalent(to_formula(v[0].rhs), to_formula(pat("self.requests.any()"))) is None and v[0].domain == dom
    ctx.check(ok, "C39.binary-valid", v[0].site if v else comp.site, "RoundRobin.valid", found="; ".join(f"{tstr(h.domain)} += valid.eq({tstr(h.rhs)})" for h in v),
              required="valid <- any(requests) in the same clock domain as grant (valid and grant refer to the same cycle's requests)")


def check(ctx):
    from . import ohs

    ohs.one_hot_switch_dynamic(ctx, "C39")
    ctx.use(ELAB)
    check_onehot(ctx)
    check_binary(ctx)


MUTANTS = [
    ("onehot-grant-not-onehot", ELAB, "m.d.comb += self.grant.eq(1 << j)", "m.d.comb += self.grant.eq(self.grant | (1 << j))"),
    ("onehot-wrong-request", ELAB, "                    with m.If(self.requests[j]):\n                        m.d.comb += self.grant.eq(1 << j)", "                    with m.If(self.requests[i]):\n                        m.d.comb += self.grant.eq(1 << j)"),
    ("onehot-fixed-priority", ELAB, "for j in itertools.chain(reversed(range(i)), reversed(range(i + 1, self.count))):", "for j in itertools.chain(reversed(range(i + 1, self.count)), reversed(range(i))):"),
    ("onehot-skips-last", ELAB, "for j in itertools.chain(reversed(range(i)), reversed(range(i + 1, self.count))):", "for j in itertools.chain(reversed(range(i)), reversed(range(i + 1, self.count - 1))):"),
    ("onehot-valid-all", ELAB, "        m.d.comb += self.valid.eq(self.requests.any())\n\n        m.d.sync += grant_reg.eq(self.grant)", "        m.d.comb += self.valid.eq(self.requests.all())\n\n        m.d.sync += grant_reg.eq(self.grant)"),
    ("onehot-state-frozen-without-requests", ELAB, "        m.d.sync += grant_reg.eq(self.grant)", "        with m.If(self.grant != grant_reg):\n            m.d.sync += grant_reg.eq(self.grant << 1)"),
    ("binary-grant-wrong-index", ELAB, "                        with m.If(self.requests[succ]):\n                            m.d.sync += self.grant.eq(succ)", "                        with m.If(self.requests[succ]):\n                            m.d.sync += self.grant.eq(i)"),
    ("binary-order", ELAB, "for succ in reversed(range(i + 1, self.count)):", "for succ in range(i + 1, self.count):"),
    ("binary-valid-comb", ELAB, "        m.d.sync += self.valid.eq(self.requests.any())\n\n        return m\n\n\nclass MultiPriorityEncoder", "        m.d.comb += self.valid.eq(self.requests.any())\n\n        return m\n\n\nclass MultiPriorityEncoder"),
]
