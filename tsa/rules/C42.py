"""C42 - DependencyManager keys: python-level path facts over all static configurations of add_dependency /
get_optional_dependency / get_dependency and the combine functions of the key classes.

The manager's state is three containers (dependencies, cache, locked_dependencies); every path through the three
methods is enumerated (3 + 14 + 2 configurations), so the per-path obligations below are the complete transition
relation of that state.  The statement over histories follows from it by induction on the history (paper step)."""

from .common import *
from ..pm import has, pat, pmatch
from ..pyfacts import Fn, py_guard
from ..stage import Effect, Raise, Store
from ..term import mk_op

REL = "transactron/utils/dependencies.py"
LIB = "transactron/lib/dependencies.py"


def _cfg(ex):
    return {tstr(t): v for t, v in ex.config}


def add_dependency(ctx):
    fn = Fn(ctx.repo, REL, "DependencyManager.add_dependency", "C42")
    key, dep = fn.param(1), fn.param(2)
    APP = ("call", ("a", ("i", pat("self.dependencies"), key), "append"), (dep,), ())
    DEL = ("call", ("n", "del"), (("i", pat("self.cache"), key),), ())
    LOCKED = "(key in self.locked_dependencies)"
    CACHED = "(key in self.cache)"
    n = 0
    for ex in fn.exs:
        n += 1
        c = _cfg(ex)
        effs = [e.call for e in ex.of(Effect)]
        raises = ex.of(Raise)
        name = ", ".join(f"{k}={v}" for k, v in c.items())
        if c.get(LOCKED) is True:
            ok = bool(raises) and APP not in effs and not ex.of(Store)
            ctx.check(ok, "C42.locked-add-rejected", raises[0].site if raises else fn.site, f"add_dependency[{name}]", found=f"{len(raises)} raise(s), effects {[tstr(x) for x in effs]}",
                      required="adding to a key that is in locked_dependencies raises and changes nothing")
        elif c.get(LOCKED) is False:
            ok = effs.count(APP) == 1 and not raises and effs.index(APP) == 0
            ctx.check(ok, "C42.add-appends", fn.site, f"add_dependency[{name}].append", found=str([tstr(x) for x in effs]), required="the dependency is appended (insertion order) to dependencies[key], once")
            if c.get(CACHED) is True:
                ctx.check(DEL in effs, "C42.add-invalidates-cache", fn.site, f"add_dependency[{name}].invalidate", found=str([tstr(x) for x in effs]), required="a cached combination of this key is dropped when a dependency is added (no stale result)")
            else:
                ctx.check(CACHED in c, "C42.add-invalidates-cache", fn.site, f"add_dependency[{name}].cache-test", found=str(sorted(c)), required="every appending path tests whether the key is cached", nontrivial=False)
        else:
            ctx.bad("C42.locked-add-rejected", fn.site, f"add_dependency[{name}]", found=f"decisions {sorted(c)}", required="every path starts with the test key in locked_dependencies")
    ctx.floor("C42", "add_dependency configurations", n, 1, fn.site)


def get_optional(ctx):
    fn = Fn(ctx.repo, REL, "DependencyManager.get_optional_dependency", "C42")
    key = fn.param(1)
    LOCK = ("call", ("a", pat("self.locked_dependencies"), "add"), (key,), ())
    COMBINE = ("call", ("a", key, "combine"), (("i", pat("self.dependencies"), key),), ())
    n = 0
    for ex in fn.exs:
        n += 1
        c = _cfg(ex)
        name = ", ".join(f"{k}={'T' if v else 'F'}" for k, v in c.items())
        effs = [e.call for e in ex.of(Effect)]
        rets = [r for r in ex.of(Return) if r.callid is None]
        stores = ex.of(Store)
        if len(rets) != 1:
            ctx.bad("C42.get-paths", fn.site, f"get_optional_dependency[{name}]", found=f"{len(rets)} returns", required="one result per path")
            continue
        r = rets[0]
        # (a) locking: exactly the lock_on_get keys are locked, on every path (also the 'not provided' and cached ones)
        lk = c.get("key.lock_on_get")
        ctx.check(lk is not None and (LOCK in effs) == bool(lk), "C42.lock-on-get", r.site, f"get_optional_dependency[{name}].lock", found=f"lock_on_get={lk}, effects {[tstr(x) for x in effs]}",
                  required="a key with lock_on_get is added to locked_dependencies on every path of a read; other keys never")
        val = r.value
        vdef = ex.vardefs.get(val[2]) if val[0] == "v" else val
        missing = c.get("key.empty_valid") is False and c.get("(key in self.dependencies)") is False
        if missing:
            ctx.check(val == ("c", None) and not stores, "C42.absent-key", r.site, f"get_optional_dependency[{name}].absent", found=tstr(val), required="a key without dependencies that does not accept emptiness yields None (and caches nothing)")
            continue
        ctx.check(c.get("key.empty_valid") is True or c.get("(key in self.dependencies)") is True, "C42.absent-key", r.site, f"get_optional_dependency[{name}].present", found=name,
                  required="the absence test (not empty_valid and key not in dependencies) precedes cache and combine", nontrivial=False)
        if c.get("(key in self.cache)") is True:
            ctx.check(val == ("i", pat("self.cache"), key) and not stores, "C42.cache-read", r.site, f"get_optional_dependency[{name}].cached", found=tstr(val), required="a cached key returns cache[key] (its own entry)")
            continue
        ok = vdef == COMBINE
        ctx.check(ok, "C42.combine", r.site, f"get_optional_dependency[{name}].combine", found=tstr(vdef) if vdef else tstr(val), required="the result is key.combine(dependencies[key]): all dependencies of this key, in insertion order")
        want_store = c.get("key.cache") is True
        st_ok = (len(stores) == 1 and stores[0].target == ("i", pat("self.cache"), key) and stores[0].value == val) if want_store else not stores
        ctx.check(st_ok, "C42.cache-fill", r.site, f"get_optional_dependency[{name}].store", found="; ".join(f"{tstr(s.target)} <- {tstr(s.value)}" for s in stores) or "no store",
                  required="the combined value is stored in cache[key] exactly when key.cache (non-cached keys such as UnifierKey are recombined every time)")
    ctx.floor("C42", "get_optional_dependency configurations", n, 1, fn.site)
    # get_dependency: KeyError exactly when the key is absent and emptiness is not allowed - decided on the key, not on the
    # value: None is a legitimate dependency and a legitimate default (F35).  Otherwise the result of the optional read.
    g = Fn(ctx.repo, REL, "DependencyManager.get_dependency", "C42")
    key = g.param(1)
    from ..logic import equivalent as _eq, f_and as _and, f_not as _not
    from ..pyfacts import py_guard as _pg

    absent = _and(_not(("atom", ("a", key, "empty_valid"))), _not(("atom", mk_op("in", key, pat("self.dependencies")))))
    n_ret = n_raise = 0
    for ex in g.exs:
        rets = [r for r in ex.of(Return) if r.callid is None]
        parts = [(to_formula(t) if v else _not(to_formula(t))) for t, v in ex.config]
        reach = _and(*parts)
        from ..logic import atoms_of as _atoms

        on_value = [a for a in _atoms(reach) if a[0] == "op" and a[1] in ("is", "==") and ("c", None) in a[2:]]
        for r in rets:
            d = ex.vardefs.get(r.value[2]) if r.value[0] == "v" else r.value
            ok = d == ("call", ("a", ("self",), "get_optional_dependency"), (key,), ()) and not on_value
            n_ret += 1
            ctx.check(ok, "C42.get-dependency", r.site, "get_dependency.result", found=(tstr(d) if d else tstr(r.value)) + (" after a test of the value against None" if on_value else ""),
                      required="returns the optional read of the key; whether the key is missing is decided on the key (absent and emptiness not allowed), never on the value - None is a valid dependency and a valid default")
        for r in ex.of(Raise):
            n_raise += 1
            # the raising path is the absent path: compare modulo the lock bookkeeping test
            core = _and(*[p for p, (t, v) in zip(parts, ex.config) if "lock_on_get" not in tstr(t)])
            ok = pmatch("KeyError(Q_m)", r.exc) is not None and _eq(core, absent) is None
            locks = [e for e in ex.of(Effect) if pmatch("self.locked_dependencies.add(Q_k)", e.call) == {"k": key}]
            lock_cfg = dict((tstr(t), v) for t, v in ex.config).get("key.lock_on_get")
            ok_lock = lock_cfg is not None and bool(locks) == bool(lock_cfg)
            ctx.check(ok, "C42.get-dependency", r.site, "get_dependency.missing", found=f"{tstr(r.exc)[:60]} if {fstr(core)}", required="KeyError exactly when the key has no dependencies and does not accept emptiness")
            ctx.check(ok_lock, "C42.get-dependency", r.site, "get_dependency.missing.lock", found=f"lock_on_get={lock_cfg}: {len(locks)} lock(s)", required="a failed read locks the key like a successful one (when the key locks on get)")
    ctx.floor("C42", "get_dependency result paths", n_ret, 1, g.site)
    ctx.check(n_raise >= 1, "C42.get-dependency", g.site, "get_dependency.missing-path", found=f"{n_raise} raising path(s)", required="a path on which a missing dependency raises KeyError exists")


def keys(ctx):
    fn = Fn(ctx.repo, REL, "SimpleKey.combine", "C42")
    data = fn.param(1)
    L = ("call", ("n", "len"), (data,), ())
    seen = set()
    for ex in fn.exs:
        from ..logic import evalt

        for n in range(0, 4):
            try:
                sel = all(bool(evalt(t, {L: n})) == v for t, v in ex.config)
            except NotEvaluable as e:
                raise AnalysisError("C42.simple-key", fn.site, f"cannot evaluate the length tests ({e})")
            if not sel:
                continue
            seen.add(n)
            rets = [r for r in ex.of(Return) if r.callid is None]
            rs = ex.of(Raise)
            if n == 0:
                ok = len(rets) == 1 and rets[0].value == pat("self.default_value") and not rs
                req = "no dependency: the key's default value"
            elif n == 1:
                ok = len(rets) == 1 and rets[0].value == ("i", data, ("c", 0)) and not rs
                req = "one dependency: that dependency"
            else:
                ok = not rets and len(rs) == 1
                req = "more than one dependency: error"
            ctx.check(ok, "C42.simple-key", fn.site, f"SimpleKey.combine[len={n}]", found="; ".join(tstr(r.value) for r in rets) or f"{len(rs)} raise(s)", required=req)
    ctx.check(seen == {0, 1, 2, 3}, "C42.simple-key-total", fn.site, "SimpleKey.combine.cases", found=str(sorted(seen)), required="every list length selects a path")
    fn = Fn(ctx.repo, REL, "ListKey.combine", "C42")
    rets = [r for ex in fn.exs for r in ex.of(Return) if r.callid is None]
    # all dependencies in insertion order - in a list of the caller's own: the manager's list (or a cached one) handed out would
    # change under the caller at the next add, and a caller that appends to it (TransactionManager does, to the list it got for
    # DefinedMethodsKey) would change the contents of a locked key (F36)
    data = fn.param(1)
    copy_ok = len(rets) == 1 and rets[0].value in (("call", ("n", "list"), (data,), ()), ("call", ("a", data, "copy"), (), ()), ("i", data, ("slice", ("c", None), ("c", None), ("c", None))),
                                                     ("list", ("star", data)))
    ctx.check(copy_ok, "C42.list-key", fn.site, "ListKey.combine", found="; ".join(tstr(r.value) for r in rets), required="returns a new list with all dependencies in insertion order (not the manager's own list object)")
    import ast as _ast

    lk_cache = None
    for cls in [n for n in ctx.repo.modules[REL].tree.body if isinstance(n, _ast.ClassDef) and n.name == "ListKey"]:
        for st in cls.body:
            if isinstance(st, _ast.Assign) and len(st.targets) == 1 and isinstance(st.targets[0], _ast.Name) and st.targets[0].id == "cache" and isinstance(st.value, _ast.Constant):
                lk_cache = st.value.value
    ctx.check(lk_cache is False, "C42.list-key-not-cached", fn.site, "ListKey.cache", found=str(lk_cache), required="cache = False: a cached list would be the shared object again")
    # class-level flags
    mod = ctx.repo.modules[REL]
    import ast as _ast

    flags = {}
    for cls in [n for n in mod.tree.body if isinstance(n, _ast.ClassDef)]:
        for st in cls.body:
            tgt = None
            if isinstance(st, _ast.AnnAssign) and isinstance(st.target, _ast.Name) and st.value is not None:
                tgt, val = st.target.id, st.value
            elif isinstance(st, _ast.Assign) and len(st.targets) == 1 and isinstance(st.targets[0], _ast.Name):
                tgt, val = st.targets[0].id, st.value
            if tgt in ("lock_on_get", "cache", "empty_valid") and isinstance(val, _ast.Constant):
                flags[(cls.name, tgt)] = val.value
    want = {("DependencyKey", "lock_on_get"): True, ("DependencyKey", "cache"): True, ("DependencyKey", "empty_valid"): False, ("ListKey", "empty_valid"): True}
    ok = all(flags.get(k) == v for k, v in want.items()) and ("SimpleKey", "lock_on_get") not in flags and ("ListKey", "lock_on_get") not in flags
    ctx.check(ok, "C42.key-flags", fn.site, "DependencyKey.flags", found=str({f"{a}.{b}": v for (a, b), v in flags.items()}),
              required="keys lock on get and cache by default; a list key accepts emptiness (returns []), a simple key does not (None -> get_dependency raises unless a default applies through combine)")
    ctx.use(LIB)
    fn = Fn(ctx.repo, LIB, "UnifierKey.combine", "C42")
    data = fn.param(1)
    n = 0
    for ex in fn.exs:
        c = _cfg(ex)
        rets = [r for r in ex.of(Return) if r.callid is None]
        if len(rets) != 1:
            continue
        n += 1
        v = rets[0].value
        if c.get("(1 == len(data))") is True:
            ok = v[0] == "tuple" and v[1] == ("i", data, ("c", 0)) and v[2] in (("call", ("n", "tuple"), (), ()), ("tuple",))
            req = "a single method is returned as it is, with no unifier"
        else:
            ok = v[0] == "tuple" and len(v) == 3 and pmatch("Q_u.method", v[1]) is not None and v[2][0] == "tuple" and v[2][1:] == (pmatch("Q_u.method", v[1])["u"],)
            if ok:
                u = pmatch("Q_u.method", v[1])["u"]
                d = ex.vardefs.get(u[2]) if u[0] == "v" else u
                ok = d == ("call", ("a", ("self",), "unifier"), (data,), ())
            req = "several methods: (unifier(data).method, (that unifier,))"
        ctx.check(ok, "C42.unifier-key", rets[0].site, f"UnifierKey.combine[{'one' if c.get('(1 == len(data))') else 'many'}]", found=tstr(v), required=req)
    ctx.floor("C42", "UnifierKey.combine paths", n, 2, fn.site)
    mod = ctx.repo.modules[LIB]
    cache_flag = None
    for cls in [n for n in mod.tree.body if isinstance(n, _ast.ClassDef) and n.name == "UnifierKey"]:
        for st in cls.body:
            if isinstance(st, _ast.Assign) and len(st.targets) == 1 and isinstance(st.targets[0], _ast.Name) and st.targets[0].id == "cache" and isinstance(st.value, _ast.Constant):
                cache_flag = st.value.value
    ctx.check(cache_flag is False, "C42.unifier-not-cached", fn.site, "UnifierKey.cache", found=str(cache_flag), required="cache = False: each read builds a fresh unifier (a cached one would be added to two modules)")


def check(ctx):
    ctx.use(REL)
    add_dependency(ctx)
    get_optional(ctx)
    keys(ctx)


MUTANTS = [
    ("add-ignores-lock", REL, "        if key in self.locked_dependencies:\n            raise KeyError(f\"Trying to add dependency to {key} that was already read and is locked\")\n", ""),
    ("add-keeps-stale-cache", REL, "        if key in self.cache:\n            del self.cache[key]\n", ""),
    ("add-prepends", REL, "        self.dependencies[key].append(dependency)", "        self.dependencies[key].insert(0, dependency)"),
    ("lock-after-absence-test", REL, "        if key.lock_on_get:\n            self.locked_dependencies.add(key)\n\n        if not key.empty_valid and key not in self.dependencies:\n            return None\n", "        if not key.empty_valid and key not in self.dependencies:\n            return None\n\n        if key.lock_on_get:\n            self.locked_dependencies.add(key)\n"),
    ("lock-always", REL, "        if key.lock_on_get:\n            self.locked_dependencies.add(key)", "        self.locked_dependencies.add(key)"),
    ("cache-always", REL, "        if key.cache:\n            self.cache[key] = val", "        self.cache[key] = val"),
    ("cache-before-absence-test", REL, "        if not key.empty_valid and key not in self.dependencies:\n            return None\n\n        if key in self.cache:\n            return self.cache[key]\n", "        if key in self.cache:\n            return self.cache[key]\n\n        if not key.empty_valid and key not in self.dependencies:\n            return None\n"),
    ("get-dependency-returns-none", REL, "        if not key.empty_valid and key not in self.dependencies:\n            if key.lock_on_get:\n                self.locked_dependencies.add(key)\n            raise KeyError(f\"Dependency {key} not provided\")\n", ""),
    ("get-dependency-none-is-missing", REL, "        return self.get_optional_dependency(key)  # type: ignore\n", "        ret = self.get_optional_dependency(key)\n        if ret is None:\n            raise KeyError(key)\n        return ret\n"),
    ("get-dependency-failed-read-does-not-lock", REL, "            if key.lock_on_get:\n                self.locked_dependencies.add(key)\n            raise KeyError", "            raise KeyError"),
    ("list-key-shared-object", REL, "        return list(data)", "        return data"),
    ("list-key-cached", REL, "    # every read gets a list of its own: the caller may modify it\n    cache = False\n", ""),
    ("simple-key-last", REL, "        return data[0]", "        return data[-1]"),
    ("simple-key-many-accepted", REL, "        if len(data) != 1:\n            raise RuntimeError(f\"Key {self} assigned {len(data)} values, expected 1\")\n", ""),
    ("list-key-reversed", REL, "    def combine(self, data: list[T]) -> list[T]:\n        return list(data)", "    def combine(self, data: list[T]) -> list[T]:\n        return list(data)[::-1]"),
    ("list-key-empty-invalid", REL, "    empty_valid = True\n", "    empty_valid = False\n"),
    ("unifier-cached", LIB, "    cache = False\n", "    cache = True\n"),
    ("unifier-key-drops-unifier", LIB, "            return unifier.method, (unifier,)", "            return unifier.method, tuple()"),
]
