"""C35 - profiler: control dependence of the running / locked entries, one count per (cycle, id), sampling order
agreement (equality with what actually ran needs C04 and is NOT decided here)."""

from .common import *
from ..pm import pmatch, pat, has, find_all
from ..pyfacts import Fn, loops, loop_iters, py_guard
from ..stage import Effect, Store as St

PROF = "transactron/profiler.py"
TPROF = "transactron/testing/profiler.py"


def cycle_profile(ctx):
    fn = Fn(ctx.repo, PROF, "CycleProfile.make", "C35")
    samples, data = fn.param(0), fn.param(1)
    stores = fn.facts(St)
    run_t = [(ex, s) for ex, s in stores if pmatch("Q_c.running[Q_k]", s.target) and len(loops(s)) == 1 and pmatch("Q_s.transactions.items()", loops(s)[0][1])]
    ctx.floor("C35", "running[transaction] stores", len(run_t), 1, fn.site)
    for ex, s in run_t:
        it = loops(s)[0][0][0]
        tid, ts = ("i", it, ("c", 0)), ("i", it, ("c", 1))
        g = py_guard(s)
        ok = pmatch("Q_c.running[Q_k]", s.target)["k"] == tid and equivalent(g, A(("a", ts, "run"))) is None and s.value == ("c", None) and pmatch("Q_s.transactions.items()", loops(s)[0][1])["s"] == samples
        ctx.check(ok, "C35.running-transaction", s.site, "CycleProfile.make.running[transaction]", found=f"{tstr(s.target)} = {tstr(s.value)} if {fstr(g)}", required="a transaction is listed as running exactly when its run sample is set (caller = None)")
    lock_t = [(ex, s) for ex, s in stores if pmatch("Q_c.locked[Q_k]", s.target) and loops(s) and pmatch("Q_s.transactions.items()", loops(s)[0][1])]
    ctx.analysed["C35:locked[transaction] stores"] = len(lock_t)
    if not lock_t:
        # the function still records running transactions, but no path marks a transaction as locked any more
        ctx.bad("C35.locked-transaction", fn.site, "CycleProfile.make.locked[transaction]", found="no reachable store into the locked table for transactions",
                required="a ready and runnable transaction that did not run because a conflicting one ran is marked locked")
    for ex, s in lock_t:
        lp = loops(s)
        it = lp[0][0][0]
        tid, ts = ("i", it, ("c", 0)), ("i", it, ("c", 1))
        ok = len(lp) == 2 and lp[1][1] == ("i", ("a", data, "transaction_conflicts"), tid)
        g = fn.reach(St, lambda x, t=s.target: x.target == t)
        if ok:
            t2 = lp[1][0][0]
            want = f_and(f_not(A(("a", ts, "run"))), A(("a", ts, "ready")), A(("a", ts, "runnable")), A(("a", ("i", ("a", samples, "transactions"), t2), "run")))
            gg = py_guard(s)
            okg = equivalent(gg, want) is None
            ok = okg and pmatch("Q_c.locked[Q_k]", s.target)["k"] == tid and s.value == t2
        ctx.check(ok, "C35.locked-transaction", s.site, "CycleProfile.make.locked[transaction]", found=f"{tstr(s.target)} = {tstr(s.value)} if {fstr(py_guard(s))} (reached when {fstr(g)[:120]})",
                  required="a transaction is marked locked only when it did not run, was ready and runnable, and a transaction from its conflict list ran; the locker is that transaction")
    # methods: running[m] = parent that runs
    run_m = [(ex, s) for ex, s in stores if pmatch("Q_c.running[Q_k]", s.target) and loops(s) and pmatch("Q_s.methods.keys()", loops(s)[0][1])]
    ctx.floor("C35", "running[method] stores", len(run_m), 1, fn.site)
    for ex, s in run_m:
        lp = loops(s)
        mid = lp[0][0][0]
        ok = len(lp) == 2 and lp[1][1] == ("i", ("a", data, "method_parents"), mid) and s.value == lp[1][0][0] and pmatch("Q_c.running[Q_k]", s.target)["k"] == mid
        g = py_guard(s)
        ats = atoms_of(g)
        okg = len(ats) == 2 and all(pmatch("Q_x in Q_r", a) for a in ats) and {pmatch("Q_x in Q_r", a)["x"] for a in ats} == {mid, s.value} and len({pmatch("Q_x in Q_r", a)["r"] for a in ats}) == 1 and equivalent(g, f_and(*[A(a) for a in ats])) is None
        ctx.check(ok and okg, "C35.running-method", s.site, "CycleProfile.make.running[method]", found=f"{tstr(s.target)} = {tstr(s.value)} if {fstr(g)}", required="a running method is attributed to one of its parents that is itself running")
    adds = fn.facts(Effect, lambda e: pmatch("Q_r.add(Q_x)", e.call) is not None and loops(e) and pmatch("Q_s.methods.items()", loops(e)[0][1]))
    ok = False
    for ex, e in adds:
        it = loops(e)[0][0][0]
        ok = pmatch("Q_r.add(Q_x)", e.call)["x"] == ("i", it, ("c", 0)) and equivalent(py_guard(e), A(("a", ("i", it, ("c", 1)), "run"))) is None
    ctx.check(ok, "C35.running-method-set", adds[0][1].site if adds else fn.site, "CycleProfile.make.running-set", found="; ".join(f"{tstr(e.call)} if {fstr(py_guard(e))}" for _, e in adds) or "none", required="a method joins the running set exactly when its run sample is set")


def analyze(ctx):
    fn = Fn(ctx.repo, PROF, "Profile.analyze_transactions", "C35", enter=("rec",))
    sts = fn.facts(St, lambda s: s.aug == "+")
    run_inc = [(ex, s) for ex, s in sts if tstr(s.target).endswith(".stat.run")]
    lock_inc = [(ex, s) for ex, s in sts if tstr(s.target).endswith(".stat.locked")]
    ok = False
    for ex, s in run_inc:
        g = py_guard(s)
        ats = [a for a in atoms_of(g) if pmatch("Q_i in Q_c.running", a)]
        ok = ok or (len(ats) == 1 and implies(g, A(ats[0])) is None and s.value == ("c", 1))
    ctx.check(ok, "C35.stat-run", run_inc[0][1].site if run_inc else fn.site, "analyze_transactions.run", found="; ".join(fstr(py_guard(s)) for _, s in run_inc) or "none", required="run is incremented (by 1) only for ids in the cycle's running table")
    # locked is incremented under (not running and locked) in rec, or in the loop over c.locked - never together with run for one id
    ok = bool(lock_inc)
    for ex, s in lock_inc:
        g = fn.reach(St, lambda x, t=s.target, st=s.site: x.target == t and x.site == st)
        in_rec = any(x[0] == "p" and x[1] == "rec" for x in subterms(s.target))
        lp = loops(s)
        if in_rec:
            a_run = [a for a in atoms_of(g) if pmatch("Q_i in Q_c.running", a)][0]
            a_lock = [a for a in atoms_of(g) if pmatch("Q_i in Q_c.locked", a)]
            ok = ok and bool(a_lock) and implies(g, f_and(f_not(A(a_run)), A(a_lock[0]))) is None
        else:
            ok = ok and len(lp) >= 2 and pmatch("Q_c.locked", lp[-1][1]) is not None
            # the entry counted is the transaction the loop is at, and only transactions have an entry
            i_ = lp[-1][0][0]
            mt = pmatch("Q_s[Q_i].stat.locked", s.target)
            gp = py_guard(s)
            ok = ok and mt is not None and mt["i"] == i_ and lp[-1][1] == ("a", lp[0][0][0], "locked") and equivalent(gp, A(("op", "in", i_, mt["s"]))) is None
        ok = ok and s.value == ("c", 1)
    # the per-transaction entry is visited once per cycle in which the transaction is in the running table
    effs = fn.facts(Effect, lambda e: pmatch("rec(Q_c, Q_s[Q_i], Q_i)", e.call) is not None and len(loops(e)) == 2)
    okv = False
    for _, e in effs:
        lp = loops(e)
        mv = pmatch("rec(Q_c, Q_s[Q_i], Q_i)", e.call)
        okv = okv or (lp[0][1] == pat("self.cycles") and mv["c"] == lp[0][0][0] and lp[1][1] == ("a", mv["c"], "running") and mv["i"] == lp[1][0][0] and equivalent(py_guard(e), A(("op", "in", mv["i"], mv["s"]))) is None)
    ctx.check(okv, "C35.stat-run.visited", effs[0][1].site if effs else fn.site, "analyze_transactions.visit", found="; ".join(f"{tstr(e.call)} if {fstr(py_guard(e))}" for _, e in effs) or "no visit of the running transactions",
              required="for every cycle and every id in its running table that has a statistics entry, that entry is updated for that id")
    ctx.check(ok, "C35.stat-locked", lock_inc[0][1].site if lock_inc else fn.site, "analyze_transactions.locked", found="; ".join(f"{s.site.split(':')[1]}: {fstr(py_guard(s))[:80]}" for _, s in lock_inc) or "none",
              required="locked is incremented only for ids in the locked table (and, inside the per-id recursion, only when the id is not running): one count per (cycle, id)")
    # iteration over every cycle
    ok = all(loops(s) and loops(s)[0][1] == pat("self.cycles") for _, s in run_inc + lock_inc if loops(s)) and any(loops(s) for _, s in lock_inc)
    ctx.check(ok, "C35.stat-all-cycles", fn.site, "analyze_transactions.cycles", found="loops over self.cycles" if ok else "different iteration", required="statistics are accumulated over every recorded cycle", nontrivial=False)


def sampling(ctx):
    fn = Fn(ctx.repo, TPROF, "profiler_process", "C35", enter=("process",))
    ok_order = False
    ok_layout = False
    mm = None
    for ex in fn.exs:
        for f in ex.facts:
            for fr in f.frames:
                if fr[0] != "for":
                    continue
                for m in find_all("Q_x.sample(*Q_t).sample(*Q_m)", fr[2]):
                    tg, mg = m["t"], m["m"]
                    if tg[0] == "lc" and mg[0] == "lc":
                        tr = tg[3][0][0]
                        me = mg[3][0][0]
                        mmt = pmatch("Q_mm.transactions", tg[3][0][1])
                        mmm = pmatch("Q_mm.methods", mg[3][0][1])
                        ok_order = mmt is not None and mmm is not None and mmt["mm"] == mmm["mm"] and mg[2] == ("a", me, "run")
                        mm = mmt["mm"] if mmt else None
                        v = pmatch("View(Q_l, Cat(Q_a, Q_b, Q_c))", tg[2])
                        if v:
                            lay = ex.vardef(v["l"]) or v["l"]
                            ml = pmatch("StructLayout(Q_d)", lay)
                            names = [k[1] for k, _ in ml["d"][1]] if ml and ml["d"][0] == "dict" else []
                            ok_layout = names == ["ready", "runnable", "run"] and (v["a"], v["b"], v["c"]) == tuple(("a", tr, n) for n in names)
    ctx.check(ok_order, "C35.sample-order", fn.site, "profiler_process.sampled", found="transactions then methods of one method map" if ok_order else "different", required="first one sample per transaction (method_map.transactions order), then one run sample per method (method_map.methods order)")
    ctx.check(ok_layout, "C35.sample-layout", fn.site, "profiler_process.layout", found="layout fields match the concatenation order" if ok_layout else "mismatch", required="the packed transaction sample lists ready, runnable, run in the order of the layout's fields")
    # unpacking
    sts = [(ex, s) for ex in fn.exs for s in ex.of(St)]
    tst = [(ex, s) for ex, s in sts if pmatch("Q_s.transactions[Q_k]", s.target)]
    mst = [(ex, s) for ex, s in sts if pmatch("Q_s.methods[Q_k]", s.target)]
    ok = bool(tst) and bool(mst)
    if ok and mm is not None:
        ex, s = tst[0]
        lp = loops(s)
        z = pmatch("zip(Q_a, Q_b)", lp[-1][1])
        b = lp[-1][0][0]
        dat = lp[0][0][0]
        n_tr = ("call", ("n", "len"), (("a", mm, "transactions"),), ())
        okt = z is not None and z["a"] == ("a", mm, "transactions") and has_slice(z["b"], None, n_tr) and pmatch("Q_s.transactions[Q_k]", s.target)["k"][0] == "call" and pmatch("Q_s.transactions[Q_k]", s.target)["k"][2] == (("i", ("a", mm, "transactions"), b),)
        v = s.value
        tsamp = ("i", z["b"], b) if z else None
        okv = v == ("call", ("n", "TransactionSamples"), tuple(("call", ("n", "bool"), (("a", tsamp, n),), ()) for n in ("ready", "runnable", "run")), ())
        ex2, s2 = mst[0]
        lp2 = loops(s2)
        z2 = pmatch("zip(Q_a, Q_b)", lp2[-1][1])
        okm = z2 is not None and z2["a"] == ("a", mm, "methods") and has_slice(z2["b"], n_tr, None)
        ok = okt and okv and okm
    ctx.check(ok, "C35.unpack-order", tst[0][1].site if tst else fn.site, "profiler_process.unpacked", found=f"transaction store: {tstr(tst[0][1].value)[:100] if tst else None}", required="the first len(transactions) samples are zipped with the transactions (fields ready, runnable, run in dataclass order), the rest with the methods")
    # dataclass field order
    ci = ctx.repo.cls(PROF, "TransactionSamples")
    import ast as _ast

    flds = [n.target.id for n in ci.node.body if isinstance(n, _ast.AnnAssign) and isinstance(n.target, _ast.Name)]
    ctx.check(flds == ["ready", "runnable", "run"], "C35.sample-dataclass", ci.site, "TransactionSamples.fields", found=str(flds), required="positional construction (ready, runnable, run) matches the field order")
    apps = [(ex, e) for ex in fn.exs for e in ex.of(Effect) if pmatch("Q_p.cycles.append(Q_c)", e.call)]
    ok = bool(apps) and any(pmatch("CycleProfile.make(Q_s, Q_d)", ex.vardef(pmatch("Q_p.cycles.append(Q_c)", e.call)["c"]) or pmatch("Q_p.cycles.append(Q_c)", e.call)["c"]) is not None for ex, e in apps)
    ctx.check(ok, "C35.cycle-recorded", fn.site, "profiler_process.append", found=f"{len(apps)} append(s)", required="one CycleProfile.make(samples, profile_data) is appended per sampled cycle")


def has_slice(t, lo, hi):
    if t[0] != "i" or t[2][0] != "slice":
        return False
    sl = t[2]
    return (sl[1] == (lo if lo is not None else ("c", None))) and (sl[2] == (hi if hi is not None else ("c", None)))


def profile_data(ctx):
    fn = Fn(ctx.repo, PROF, "ProfileData.make", "C35")
    sts = fn.facts(St)
    tc = [(ex, s) for ex, s in sts if len(loops(s)) == 1 and pmatch("Q_g.items()", loops(s)[0][1]) and "_conflict_graph" in tstr(loops(s)[0][1])]
    ok = False
    for ex, s in tc:
        it = loops(s)[0][0][0]
        v = s.value
        ok = s.target[0] == "i" and s.target[2][0] == "call" and s.target[2][2] == (("i", it, ("c", 0)),)
        ok = ok and v[0] == "lc" and v[3][0][1] == ("i", it, ("c", 1)) and v[2][0] == "call" and v[2][1] == s.target[2][1] and v[2][2] == (v[3][0][0],)
    ctx.check(ok, "C35.conflict-table", tc[0][1].site if tc else fn.site, "ProfileData.make.transaction_conflicts", found="; ".join(f"{tstr(s.target)[:60]} = {tstr(s.value)[:80]}" for _, s in tc) or "none",
              required="transaction_conflicts[id(t)] = ids of t's neighbours in the manager's conflict graph")


def parents_table(ctx):
    """A running method is attributed to a running parent: the parents table lists, for every method, every body that
    calls it (MethodMap.method_parents), and ProfileData.make copies it id by id."""
    MANAGER = "transactron/core/manager.py"
    ctx.use(MANAGER)
    init = Fn(ctx.repo, MANAGER, "MethodMap.__init__", "C35")
    ok = False
    detail = "no insertion into a parents table"
    for ex, e in init.facts(Effect):
        m = pmatch("self.method_parents[MBody(Q_m._body)].append(Q_p)", e.call)
        if m is None:
            continue
        lp = loops(e)
        detail = f"{tstr(e.call)} over {[tstr(l[1]) for l in lp]} if {fstr(py_guard(e))}"
        if len(lp) == 2 and pmatch("self.methods_and_transactions", lp[0][1]) is not None and m["p"] == lp[0][0][0] and m["m"] == lp[1][0][0] \
                and lp[1][1] in (("a", m["p"], "method_calls"), ("call", ("a", ("a", m["p"], "method_calls"), "keys"), (), ())) and py_guard(e) is True:
            ok = True
    ctx.check(ok, "C35.parents-table", init.site, "MethodMap.method_parents", found=detail,
              required="method_parents[called method] gets every method / transaction whose body calls it")
    fn = Fn(ctx.repo, PROF, "ProfileData.make", "C35")
    ok = False
    detail = "no copy of the parents table"
    for ex, s in fn.facts(St):
        lp = loops(s)
        if len(lp) != 1 or s.value[0] != "lc" or "method_parents" not in tstr(s.value):
            continue
        mth = lp[0][0][0]
        detail = f"{tstr(s.target)} = {tstr(s.value)[:160]}"
        idf = s.target[2][1] if s.target[0] == "i" and s.target[2][0] == "call" else None
        gens = s.value[3]
        ok = (idf is not None and s.target[2][2] == (mth,) and len(gens) == 1 and pmatch("Q_mm.method_parents[Q_k]", gens[0][1]) is not None
              and pmatch("Q_mm.method_parents[Q_k]", gens[0][1])["k"] == mth and not gens[0][2] and s.value[2] == ("call", idf, (gens[0][0],), ()) and py_guard(s) is True)
    ctx.check(ok, "C35.parents-table.copied", fn.site, "ProfileData.make.method_parents", found=detail,
              required="method_parents[id(method)] = ids of all of method_map.method_parents[method]")


def check(ctx):
    ctx.use(PROF, TPROF)
    parents_table(ctx)
    cycle_profile(ctx)
    analyze(ctx)
    sampling(ctx)
    profile_data(ctx)


MUTANTS = [
    ("running-when-ready", PROF, "            if transaction_samples.run:\n                cprof.running[transaction_id] = None", "            if transaction_samples.ready:\n                cprof.running[transaction_id] = None"),
    ("locked-without-runnable", PROF, "elif transaction_samples.ready and transaction_samples.runnable:", "elif transaction_samples.ready:"),
    ("locked-by-any-conflict", PROF, "                    if samples.transactions[transaction2_id].run:\n                        cprof.locked[transaction_id] = transaction2_id", "                    cprof.locked[transaction_id] = transaction2_id"),
    ("locked-conflicts-of-other", PROF, "for transaction2_id in data.transaction_conflicts[transaction_id]:", "for transaction2_id in data.transaction_conflicts:"),
    ("method-parent-not-running", PROF, "                    if t_or_m_id in running:\n                        cprof.running[method_id] = t_or_m_id", "                    cprof.running[method_id] = t_or_m_id"),
    ("stat-run-and-locked", PROF, "            if i in c.running:\n                node.stat.run += 1\n            elif i in c.locked:\n                node.stat.locked += 1", "            if i in c.running:\n                node.stat.run += 1\n            if i in c.locked:\n                node.stat.locked += 1"),
    ("sample-order-swapped", TPROF, "View(transaction_sample_layout, Cat(transaction.ready, transaction.runnable, transaction.run))", "View(transaction_sample_layout, Cat(transaction.runnable, transaction.ready, transaction.run))"),
    ("unpack-swapped", TPROF, "                    bool(tsample.ready),\n                    bool(tsample.runnable),", "                    bool(tsample.runnable),\n                    bool(tsample.ready),"),
    ("method-data-offset", TPROF, "method_data = data[len(method_map.transactions) :]", "method_data = data[len(method_map.methods) :]"),
    ("methods-sampled-first", TPROF, """                *(
                    View(transaction_sample_layout, Cat(transaction.ready, transaction.runnable, transaction.run))
                    for transaction in method_map.transactions
                )
            )
            .sample(*(method.run for method in method_map.methods))""", """                *(method.run for method in method_map.methods)
            )
            .sample(
                *(
                    View(transaction_sample_layout, Cat(transaction.ready, transaction.runnable, transaction.run))
                    for transaction in method_map.transactions
                )
            )"""),
]
