"""C38 - encoders, multiplexers and selecting networks.

Decided: one_hot_mux by abstract evaluation of the returned expression for every select valuation (0..4 inputs, with and
without default, priority or not); OneHotMux wiring; Encoder / Decoder / PriorityEncoder case tables; Gray code by
bit-vector evaluation (widths 1..6, decoder through its loop recurrence); the priority tree's leaf / split / merge index
agreement; the ring encoder's mask, rotation and wrap-around correction; the selecting network's merge index forms.
NOT decided: that the recursive tree and the while-loop network compose to the documented function for every width
(the per-level obligations are necessary conditions; the induction over levels is a paper argument)."""

from .common import *
from .. import bv, bitalg
from ..logic import eval_seq, evalt
from ..pm import find_all, has, pat, pmatch
from ..prov import Bits, Evaluator, WiringError
from ..pyfacts import Fn, loops, py_guard
from ..stage import MethodCall, Raise, Submodule
from ..term import mentions, subst
from . import c38

ELAB = "transactron/utils/amaranth_ext/elaboratables.py"
FUNCS = "transactron/utils/amaranth_ext/functions.py"
CODING = "transactron/utils/amaranth_ext/coding.py"


# ---------------------------------------------------------------------------------------------------------------
# one_hot_mux


def uniformize_order_preserving(ctx):
    fn = Fn(ctx.repo, FUNCS, "_uniformize_values", "C38")
    vals = fn.param(0)
    rets = [(ex, r) for ex in fn.exs for r in ex.of(Return) if r.callid is None]
    ctx.floor("C38", "_uniformize_values returns", len(rets), 2, fn.site)
    for ex, r in rets:
        v = r.value
        ok = v[0] == "tuple" and len(v) == 3 and v[1][0] == "lam" and v[2][0] == "lc" and len(v[2][3]) == 1
        if ok:
            b, it, conds = v[2][3][0]
            elt = v[2][2]
            casts = find_all("Value.cast(Q_x)", elt)
            ok = it in (vals, ("call", ("n", "list"), (vals,), ())) and not conds and bool(casts) and all(mentions(m["x"], b) for m in casts)
        ctx.check(ok, "C38.uniformize-order", r.site, "_uniformize_values.values", found=tstr(v)[:200], required="returns (cast, [Value.cast(v) for v in values]): one entry per value, in order, nothing filtered")


def _mux_builtins():
    def uniformize(ev, args, kwargs):
        return [lambda v: v, [bitalg.as_bits(x) for x in ev._iter(args[0])]]

    def or_value(ev, args, kwargs):
        flat = []

        def go(x):
            if isinstance(x, Bits) or isinstance(x, int):
                flat.append(bitalg.as_bits(x))
            else:
                for y in x:
                    go(y)

        for a in args:
            go(a)
        r = Bits(())
        for x in flat:
            r = bitalg.op("|", [r, x])
        return r

    return {"_uniformize_values": uniformize, "or_value": or_value, "top_assertion": lambda ev, a, k: None}


DW = 2  # data width of the labelled inputs


def _label(i):
    return Bits((("d", i, k) for k in range(DW)))


def _join(a, b):
    """Amaranth's result shape of a bitwise operation / Mux on operands of shapes a, b = (signed, width)."""
    (sa, wa), (sb, wb) = a, b
    if sa == sb:
        return (sa, max(wa, wb))
    if sa:  # a signed, b unsigned: b needs one more bit
        return (True, max(wa, wb + 1))
    return (True, max(wa + 1, wb))


def one_hot_mux_shape(ctx):
    """The value selected keeps its shape: every arm that is OR-ed into the result has the shape of the data (the bit-level
    evaluation above does not see signedness).  Mux(sel, data, C(0, 0)) has it; data & sel.replicate(len(data)) is one bit
    wider and signed for signed data, so a negative input comes out as value + 2**width in a wider consumer.  Decided with
    Amaranth's shape rules on the arm expression for signed and unsigned data of width 1..4."""
    fn = Fn(ctx.repo, FUNCS, "one_hot_mux", "C38")
    arms = []
    for ex in fn.exs:
        for r in ex.of(Return):
            if r.callid is not None:
                continue
            m = pmatch("Q_c(or_value(Q_g))", r.value)
            if m is not None and m["g"][0] == "lc" and len(m["g"][3]) == 1:
                arms.append((ex, r, m["g"][2], m["g"][3][0][0]))
    ctx.floor("C38", "one_hot_mux result arms", len(arms), 1, fn.site)
    for ex, r, arm, b in arms[:1]:
        b = b[0] if isinstance(b, tuple) and b and isinstance(b[0], tuple) else b

        def shape(t, data):
            if t[0] == "i" and t[2] == b:
                base = ex.vardef(t[1]) or t[1]
                txt = tstr(t[1])
                if "sel" in txt:
                    return (False, 1)
                return data
            if t[0] == "call":
                f, a = t[1], t[2]
                if f == ("n", "Mux") and len(a) == 3:
                    return _join(shape(a[1], data), shape(a[2], data))
                if f in (("n", "C"), ("n", "Const")) and len(a) == 2 and a[1][0] == "c" and isinstance(a[1][1], int):
                    return (False, a[1][1])
                if f[0] == "a" and f[2] == "replicate" and len(a) == 1:
                    inner = shape(f[1], data)
                    n = a[0]
                    if pmatch("len(Q_x)", n) is not None:
                        return (False, inner[1] * shape(pmatch("len(Q_x)", n)["x"], data)[1])
                    if n[0] == "c":
                        return (False, inner[1] * n[1])
                if f[0] == "a" and f[2] in ("as_unsigned", "as_signed") and not a:
                    return (f[2] == "as_signed", shape(f[1], data)[1])
            if t[0] == "op" and t[1] in ("&", "|", "^") and len(t) == 4:
                return _join(shape(t[2], data), shape(t[3], data))
            raise NotEvaluable(tstr(t)[:60])

        bad = None
        try:
            for signed in (False, True):
                for w in range(1, 5):
                    got = shape(arm, (signed, w))
                    if got != (signed, w):
                        bad = f"data {'signed' if signed else 'unsigned'}({w}) -> arm {'signed' if got[0] else 'unsigned'}({got[1]})"
                        break
                if bad:
                    break
        except NotEvaluable as e:
            raise AnalysisError("C38.one-hot-mux-shape", fn.site, f"arm outside the shape calculus: {e}")
        ctx.check(bad is None, "C38.one-hot-mux-shape", r.site, "one_hot_mux.arm", found=bad or f"{tstr(arm)[:80]}: shape preserved", required="every arm of the result has the shape of the data it selects")


def one_hot_mux_semantics(ctx):
    one_hot_mux_shape(ctx)
    fn = Fn(ctx.repo, FUNCS, "one_hot_mux", "C38")
    ev = Evaluator(ctx.repo, FUNCS, "C38")
    ev.builtins.update(_mux_builtins())
    bad = None
    n_eval = 0
    raised_ok = None
    try:
        for n in range(0, 5):
            for has_default in (False, True):
                for priority in (False, True):
                    # select conditions one bit wide, and two bits wide with only the upper bit set (a condition counts as
                    # set when it is non-zero; its width must not shift the other conditions)
                    for sel, sw in [(s, w_) for s in range(1 << n) for w_ in ((1, 2) if n else (1,))]:
                        inputs = [[Bits(((sel >> i) & 1,)) if sw == 1 else Bits((0, (sel >> i) & 1)), _label(i)] for i in range(n)]
                        default = Bits((("dflt", k) for k in range(DW))) if has_default else None
                        kwargs = {"default": default, "priority": priority, "assert_one_hot": False}
                        if n == 0 and not has_default:
                            continue  # rejected (see the no-inputs obligation below)
                        got = ev.call("one_hot_mux", [inputs], kwargs)
                        n_eval += 1
                        setb = [i for i in range(n) if (sel >> i) & 1]
                        if not setb:
                            want = default  # None: undefined
                        elif priority or len(setb) == 1:
                            want = _label(setb[0])
                        else:
                            continue  # several bits without priority: undefined by documentation
                        if want is None:
                            continue
                        g = tuple(got) + (0,) * (DW - len(got)) if isinstance(got, Bits) else None
                        if g != tuple(want):
                            bad = f"{n} inputs, select={sel:0{max(n,1)}b}, default={'yes' if has_default else 'no'}, priority={priority}: output wired to {got!r}, documented {want!r}"
                            break
                    if bad:
                        break
                if bad:
                    break
            if bad:
                break
    except WiringError as e:
        bad = f"the generator fails: {e}"
    except NotEvaluable as e:
        raise AnalysisError("C38.one-hot-mux", fn.site, f"one_hot_mux outside the evaluable fragment: {e}")
    ctx.check(bad is None, "C38.one-hot-mux-function", fn.site, "one_hot_mux", found=(bad or "agrees") + f"  [{n_eval} (inputs, select, default, priority) cases evaluated]",
              required="the output is the input of the set select bit (the lowest with priority), the default when none is set; for 0..4 inputs and every select valuation")
    rs = fn.facts(Raise)
    g = f_or(*[fn.reach(Raise, lambda x, r=r: x is r) for _, r in rs]) if rs else False
    ctx.check(bool(rs), "C38.one-hot-mux-empty", fn.site, "one_hot_mux.no-inputs", found=f"{len(rs)} raise(s), reached when {fstr(g)}", required="no inputs and no default is rejected", nontrivial=False)


# ---------------------------------------------------------------------------------------------------------------
# coding.py


def _hw(fn):
    return [(ex, h) for ex in fn.exs for h in ex.of(HwAssign)]


def combinational_only(ctx):
    """The coders are purely combinational: output in the same cycle as the input."""
    for cls in ("Encoder", "PriorityEncoder", "Decoder", "GrayEncoder", "GrayDecoder"):
        fn = Fn(ctx.repo, CODING, f"{cls}.elaborate", "C38")
        hs = _hw(fn)
        wrong = [h for _, h in hs if h.domain != ("c", "comb")]
        ctx.check(bool(hs) and not wrong, "C38.coder-combinational", wrong[0].site if wrong else fn.site, f"{cls}.domains", found=f"{len(hs)} assignment(s)" + (f"; {tstr(wrong[0].domain)} += {tstr(wrong[0].lhs)}" if wrong else ", all comb"),
                  required="every assignment of the coder is combinational (m.d.comb)", nontrivial=False)


def coding_tables(ctx):
    ctx.use(CODING)
    # Encoder: Case(1 << j): o = j ; Default: n = 1
    fn = Fn(ctx.repo, CODING, "Encoder.elaborate", "C38")
    hs = _hw(fn)
    o_w = [h for _, h in hs if h.lhs == pat("self.o")]
    n_w = [h for _, h in hs if h.lhs == pat("self.n")]
    ok = len(o_w) == 1 and len(n_w) == 1 and len(hs) == 2
    if ok:
        h = o_w[0]
        lp = loops(h)
        sw = [fr for fr in h.frames if fr[0] == "switch"]
        cs = [fr for fr in h.frames if fr[0] == "case"]
        ok = (len(lp) == 1 and len(sw) == 1 and sw[0][1] == pat("self.i") and len(cs) == 1 and len(cs[0][2]) == 1 and lp[0][1] == pat("range(self.width)")
              and cs[0][2][0] == ("op", "<<", ("c", 1), lp[0][0][0]) and h.rhs == lp[0][0][0] and h.domain == ("c", "comb"))
        d = [fr for fr in n_w[0].frames if fr[0] == "default"]
        ok = ok and len(d) == 1 and d[0][1] == sw[0][2] and n_w[0].rhs == ("c", 1) and not loops(n_w[0])
    ctx.check(ok, "C38.encoder-table", fn.site, "Encoder", found="; ".join(f"{tstr(h.lhs)} <- {tstr(h.rhs)} under {[fr[0] for fr in h.frames]}" for _, h in hs),
              required="Switch(i): Case(1 << j): o = j for every j < width; Default: n = 1; nothing else")
    # Decoder: Case(j): o = 1 << j ; If(n): o = 0 afterwards
    fn = Fn(ctx.repo, CODING, "Decoder.elaborate", "C38")
    hs = _hw(fn)
    ok = len(hs) == 2 and all(h.lhs == pat("self.o") for _, h in hs)
    if ok:
        a, b = hs[0][1], hs[1][1]
        lp = loops(a)
        sw = [fr for fr in a.frames if fr[0] == "switch"]
        cs = [fr for fr in a.frames if fr[0] == "case"]
        ok = (len(lp) == 1 and len(sw) == 1 and sw[0][1] == pat("self.i") and len(cs) == 1 and cs[0][2] == (lp[0][0][0],) and lp[0][1] in (pat("range(len(self.o))"), pat("range(self.width)"))
              and a.rhs == ("op", "<<", ("c", 1), lp[0][0][0]))
        ifs = [fr for fr in b.frames if fr[0] == "if"]
        ok = ok and len(b.frames) == 1 and len(ifs) == 1 and to_formula(ifs[0][1]) == A(pat("self.n")) and b.rhs == ("c", 0) and b.seq > a.seq
    ctx.check(ok, "C38.decoder-table", fn.site, "Decoder", found="; ".join(f"{tstr(h.lhs)} <- {tstr(h.rhs)} under {[fr[0] for fr in h.frames]}" for _, h in hs),
              required="Switch(i): Case(j): o = 1 << j for every j < width; then If(n): o = 0 (last writer)")
    # PriorityEncoder
    fn = Fn(ctx.repo, CODING, "PriorityEncoder.elaborate", "C38")
    hs = _hw(fn)
    d = {h.lhs: h for _, h in hs}
    # o: the index of the lowest set bit, and 0 when there is none (count_trailing_zeros(0) is the width, which is 0 in
    # Signal(range(width)) only for powers of two: F16)
    orhs = d[pat("self.o")].rhs if pat("self.o") in d else None
    mo = pmatch("Mux(Q_c, 0, count_trailing_zeros(self.i))", orhs) if orhs is not None else None
    zero_guard = False
    if mo is not None:
        try:
            zero_guard = all(bool(evalt(mo["c"], {pat("self.i"): v})) == (v == 0) for v in range(16))
        except NotEvaluable:
            zero_guard = False
    ok = (len(hs) == 2 and pat("self.o") in d and pat("self.n") in d and zero_guard and not d[pat("self.o")].frames
          and not d[pat("self.n")].frames)
    if ok:
        try:
            ok = all(bool(evalt(d[pat("self.n")].rhs, {pat("self.i"): v})) == (v == 0) for v in range(16))
        except NotEvaluable:
            ok = False
    ctx.check(ok, "C38.priority-encoder", fn.site, "PriorityEncoder", found="; ".join(f"{tstr(h.lhs)} <- {tstr(h.rhs)}" for _, h in hs), required="o = index of the lowest set bit (count_trailing_zeros(i)), 0 when no bit is set; n = (i == 0)")


def gray_code(ctx):
    def gray(v):
        return v ^ (v >> 1)

    fn = Fn(ctx.repo, CODING, "GrayEncoder.elaborate", "C38")
    hs = _hw(fn)
    I, O = pat("self.i"), pat("self.o")
    bad, n = None, 0
    if len(hs) != 1 or hs[0][1].lhs != O or hs[0][1].frames:
        bad = "expected one unconditional assignment to o"
    else:
        try:
            for w in range(1, 7):
                for v in range(1 << w):
                    got = bv.ev(hs[0][1].rhs, {I: bv.BV(v, w)}).v & bv.mask(w)
                    n += 1
                    if got != gray(v):
                        bad = f"width {w}, i={v:#b}: o={got:#b}, Gray code is {gray(v):#b}"
                        break
                if bad:
                    break
        except NotEvaluable as e:
            raise AnalysisError("C38.gray", fn.site, f"GrayEncoder outside the evaluable fragment: {e}")
    ctx.check(bad is None, "C38.gray-encoder", fn.site, "GrayEncoder", found=(bad or tstr(hs[0][1].rhs)) + f"  [{n} values]", required="o = i ^ (i >> 1) for every value of widths 1..6")
    fn = Fn(ctx.repo, CODING, "GrayDecoder.elaborate", "C38")
    bad, n = None, 0
    ex = fn.exs[0]
    hs = [h for h in ex.of(HwAssign)]
    if len(hs) != 1 or len(loops(hs[0])) != 1 or len(hs[0].frames) != 1:
        bad = "expected one assignment to o[i] inside one loop"
    else:
        h = hs[0]
        (b,), it = loops(h)[0]
        m = pmatch("self.o[Q_k]", h.lhs)
        carried = {k: v for k, v in ex.loopdefs.items() if k[1] == b[1]}
        if m is None or m["k"] != b:
            bad = f"target {tstr(h.lhs)} is not o[loop index]"
        else:
            try:
                for w in range(1, 7):
                    seq = eval_seq(it, {pat("self.width"): w})
                    for v in range(1 << w):
                        state = {}
                        for (name, lid), (init, step) in carried.items():
                            state[("loopvar", name, lid)] = bv.ev(init, {I: bv.BV(v, w)})
                        out = 0
                        written = set()
                        for k in seq:
                            env = {I: bv.BV(v, w), b: bv.BV(k, None)}
                            env.update(state)
                            bit = bv.ev(h.rhs, env).v & 1
                            out |= bit << k
                            written.add(k)
                            state = {("loopvar", name, lid): bv.ev(step, env) for (name, lid), (init, step) in carried.items()}
                        n += 1
                        if written != set(range(w)):
                            bad = f"width {w}: bits written {sorted(written)}"
                            break
                        if gray(out) != v:
                            bad = f"width {w}, i={v:#b}: o={out:#b}, whose Gray code is {gray(out):#b}"
                            break
                    if bad:
                        break
            except NotEvaluable as e:
                raise AnalysisError("C38.gray", fn.site, f"GrayDecoder outside the evaluable fragment: {e}")
    ctx.check(bad is None, "C38.gray-decoder", fn.site, "GrayDecoder", found=(bad or "o[k] = xor of i[k..width-1] (loop recurrence evaluated)") + f"  [{n} values]",
              required="encode(o) == i for every value of widths 1..6 (the decoder inverts the Gray code)")


def check(ctx):
    ctx.use(ELAB, FUNCS, CODING)
    from . import ranges as _rg
    from ..comp import Component as _Comp

    _np = 0
    for rel_, cls_, tab_ in (
        (CODING, "Encoder", [("i", "bits", "self.width", "one request bit per position"), ("o", "index", "self.width", "the index of any position")]),
        (CODING, "PriorityEncoder", [("i", "bits", "self.width", "one request bit per position"), ("o", "index", "self.width", "the index of any position")]),
        (CODING, "Decoder", [("i", "index", "self.width", "the index of any position"), ("o", "bits", "self.width", "one output bit per position")]),
        (ELAB, "MultiPriorityEncoder", [("input", "bits", "self.input_width", "one bit per position"), ("outputs", "index-array", "self.input_width", "each output is the index of any position"), ("valids", "bits", "self.outputs_count", "one valid bit per output")]),
        (ELAB, "RingMultiPriorityEncoder", [("input", "bits", "self.input_width", "one bit per position"), ("first", "index", "self.input_width", "any position"), ("last", "index", "self.input_width", "any position"),
                                            ("outputs", "index-array", "self.input_width", "each output is the index of any position"), ("valids", "bits", "self.outputs_count", "one valid bit per output")]),
    ):
        _np += _rg.port_declarations(ctx, "C38", _Comp(ctx.repo, rel_, cls_, rule="C38"), cls_, tab_)
    ctx.floor("C38", "declared port shapes", _np, 14, CODING)
    uniformize_order_preserving(ctx)
    one_hot_mux_semantics(ctx)
    c38.one_hot_mux_alignment(ctx, "C38")
    coding_tables(ctx)
    combinational_only(ctx)
    gray_code(ctx)
    from . import c38b

    c38b.priority_tree(ctx)
    c38b.ring_encoder(ctx)
    c38b.selecting_network(ctx)
    c38b.create_helpers(ctx)


MUTANTS = [
    ("mux-priority-ignored", FUNCS, "    select_one_hot = select_first if priority else select", "    select_one_hot = select"),
    ("mux-default-when-all", FUNCS, "all_sel = select_one_hot if default is None else Cat(select_one_hot, ~select.any())", "all_sel = select_one_hot if default is None else Cat(select_one_hot, ~select.all())"),
    ("mux-default-first", FUNCS, "all_sel = select_one_hot if default is None else Cat(select_one_hot, ~select.any())", "all_sel = select_one_hot if default is None else Cat(~select.any(), select_one_hot)"),
    ("mux-data-reversed", FUNCS, "    data = [val for _, val in inputs]\n", "    data = [val for _, val in reversed(inputs)]\n"),
    ("mux-and-instead-of-or", FUNCS, "    return shape_cast(or_value([Mux(all_sel[i], all_data[i], C(0, 0)) for i in range(len(all_data))]))", "    return shape_cast(or_value([Mux(all_sel[i], all_data[i], C(0, 0)) for i in range(len(all_data) - 1)]))"),
    ("mux-select-highest", FUNCS, "    select_first = extract_lowest_set_bit(select)", "    select_first = extract_lowest_set_bit(select[::-1])[::-1]"),
    ("uniformize-filters", FUNCS, "        return (lambda v: v), [Value.cast(v) for v in values]", "        return (lambda v: v), [Value.cast(v) for v in values if v is not None]"),
    ("encoder-off-by-one", CODING, "                with m.Case(1 << j):\n                    m.d.comb += self.o.eq(j)", "                with m.Case(1 << j):\n                    m.d.comb += self.o.eq(j + 1)"),
    ("encoder-case-index", CODING, "                with m.Case(1 << j):\n                    m.d.comb += self.o.eq(j)", "                with m.Case(j):\n                    m.d.comb += self.o.eq(j)"),
    ("decoder-n-first", CODING, "        with m.Switch(self.i):\n            for j in range(len(self.o)):\n                with m.Case(j):\n                    m.d.comb += self.o.eq(1 << j)\n        with m.If(self.n):\n            m.d.comb += self.o.eq(0)",
     "        with m.If(self.n):\n            m.d.comb += self.o.eq(0)\n        with m.Switch(self.i):\n            for j in range(len(self.o)):\n                with m.Case(j):\n                    m.d.comb += self.o.eq(1 << j)"),
    ("priority-encoder-n-inverted", CODING, "        m.d.comb += self.n.eq(self.i == 0)", "        m.d.comb += self.n.eq(self.i != 0)"),
    ("gray-encoder-shift-two", CODING, "        m.d.comb += self.o.eq(self.i ^ self.i[1:])", "        m.d.comb += self.o.eq(self.i ^ self.i[2:])"),
    ("gray-decoder-forward", CODING, "        for i in reversed(range(self.width)):", "        for i in range(self.width):"),
    ("tree-leaf-valid-unconditional", ELAB, "            with m.If(in_sig):\n                m.d.comb += level_outputs[0].eq(start_idx)\n                m.d.comb += level_valids[0].eq(1)", "            with m.If(in_sig):\n                m.d.comb += level_outputs[0].eq(start_idx)\n            m.d.comb += level_valids[0].eq(1)"),
    ("tree-upper-start-wrong", ELAB, "l_out, l_val = self._build_tree(m, l_in, start_idx + middle)", "l_out, l_val = self._build_tree(m, l_in, start_idx + middle + 1)"),
    ("tree-halves-overlap", ELAB, "            m.d.comb += l_in.eq(in_sig[middle:])", "            m.d.comb += l_in.eq(in_sig[middle - 1 :])"),
    ("tree-merge-upper-index", ELAB, "                            m.d.comb += level_outputs[j].eq(l_out[j - i])\n", "                            m.d.comb += level_outputs[j].eq(l_out[j])\n"),
    ("tree-merge-valid-from-lower", ELAB, "                            m.d.comb += level_valids[j].eq(l_val[j - i])", "                            m.d.comb += level_valids[j].eq(r_val[j - i])"),
    ("tree-case-pattern", ELAB, "                    with m.Case((1 << i) - 1):", "                    with m.Case(1 << i):"),
    ("tree-merge-skips-last", ELAB, "                for i in range(self.outputs_count + 1):\n                    with m.Case((1 << i) - 1):", "                for i in range(self.outputs_count):\n                    with m.Case((1 << i) - 1):"),
    ("tree-top-valids-shifted", ELAB, "            m.d.comb += self.valids[k].eq(level_valids[k])", "            m.d.comb += self.valids[k].eq(level_valids[k - 1])"),
    ("ring-mask-inclusive", ELAB, "        m.d.comb += mask.eq((1 << last_corrected) - 1)", "        m.d.comb += mask.eq((2 << last_corrected) - 1)"),
    ("ring-wrap-condition", ELAB, "        with m.If(self.first > self.last):\n            m.d.comb += last_corrected.eq(self.input_width + self.last)", "        with m.If(self.first >= self.last):\n            m.d.comb += last_corrected.eq(self.input_width + self.last)"),
    ("ring-no-rotate-back", ELAB, "            corrected_out = Mux(moved_out >= self.input_width, moved_out - self.input_width, moved_out)", "            corrected_out = Mux(moved_out > self.input_width, moved_out - self.input_width, moved_out)"),
    ("ring-shift-by-last", ELAB, "        multi_enc_input = (double_input & mask) >> self.first", "        multi_enc_input = (double_input & mask) >> self.last"),
    ("ring-valids-shifted", ELAB, "            m.d.comb += self.valids[k].eq(multi_enc.valids[k])", "            m.d.comb += self.valids[k].eq(multi_enc.valids[0])"),
    ("network-merge-boundary", ELAB, "                    m.d.comb += merged[i].eq(Mux(cnt_a <= i, b[i - cnt_a], a[i]))", "                    m.d.comb += merged[i].eq(Mux(cnt_a < i, b[i - cnt_a], a[i]))"),
    ("network-upper-index", ELAB, "m.d.comb += merged[len(a) + i].eq(Mux(len(a) + i - cnt_a >= len(b), 0, b[len(a) + i - cnt_a]))", "m.d.comb += merged[len(a) + i].eq(Mux(len(a) + i - cnt_a >= len(b), 0, b[i - cnt_a]))"),
    ("network-count-only-a", ELAB, "                m.d.comb += total_cnt.eq(cnt_a + cnt_b)", "                m.d.comb += total_cnt.eq(cnt_a + cnt_a)"),
    ("network-swapped-operands", ELAB, "                a, cnt_a = current_level.pop(0)\n                b, cnt_b = current_level.pop(0)", "                b, cnt_b = current_level.pop(0)\n                a, cnt_a = current_level.pop(0)"),
    ("network-outputs-reversed", ELAB, "            m.d.comb += self.outputs[i].eq(last_level[i])", "            m.d.comb += self.outputs[i].eq(last_level[self.n - 1 - i])"),
    ("network-first-level-valid-shift", ELAB, "            current_level.append((Array([self.inputs[i]]), self.valids[i]))", "            current_level.append((Array([self.inputs[i]]), self.valids[i - 1]))"),
    ("create-pairs-misaligned", ELAB, "        top_m.d.comb += prio_encoder.input.eq(input)\n        return [(prio_encoder.outputs[i], prio_encoder.valids[i]) for i in range(outputs_count)]", "        top_m.d.comb += prio_encoder.input.eq(input)\n        return [(prio_encoder.outputs[i], prio_encoder.valids[0]) for i in range(outputs_count)]"),
    ("ring-create-first-last-swapped", ELAB, "        top_m.d.comb += prio_encoder.first.eq(first)\n        top_m.d.comb += prio_encoder.last.eq(last)", "        top_m.d.comb += prio_encoder.first.eq(last)\n        top_m.d.comb += prio_encoder.last.eq(first)"),
    ("gray-decoder-assign-before-update", CODING, "            rhs = rhs ^ self.i[i]\n            m.d.comb += self.o[i].eq(rhs)", "            m.d.comb += self.o[i].eq(rhs)\n            rhs = rhs ^ self.i[i]"),
]
