"""C09 - round-robin scheduler: one grant per component, no starvation (wiring + arbiter structure; the temporal
bound itself is not decided)."""

from . import core, core2, core3
from . import C39


def check(ctx):
    core2.sched_run_definitions(ctx, "C09", want_equiv=False)
    core2.mgr_scheduler_per_component(ctx, "C09")
    core2.mgr_runnable(ctx, "C09")
    # the arbiter the scheduler instantiates must be the one-hot round-robin whose structure is checked below
    arb = ctx.__dict__.get("_arbiter_classes", set())
    ctx.check(arb == {"OneHotRoundRobin"}, "C09.arbiter-class", core.SCHED, "trivial_roundrobin_cc_scheduler.arbiter-class", found=str(sorted(arb)),
              required="the component arbiter is OneHotRoundRobin (its one-hot grant / rotation obligations follow)")
    ctx.use(C39.ELAB)
    C39.check_onehot(ctx)
    from . import ohs

    ohs.one_hot_switch_dynamic(ctx, "C09")
    # the order the manager hands to a scheduler is what keeps the run network acyclic (a run may only depend on the runs of
    # transactions earlier in it): a scheduler that never reads it can close a combinational loop (F41)
    from . import core9

    core9.scheduler_consults_order(ctx, "C09")
    core9.module_connector(ctx, "C09")


MUTANTS = [
    ("rr-requests-shifted", core.SCHED, "m.d.comb += rr.requests[k].eq(transaction.ready & transaction.runnable)", "m.d.comb += rr.requests[k - 1].eq(transaction.ready & transaction.runnable)"),
    ("rr-run-without-valid", core.SCHED, "m.d.comb += transaction.run.eq(rr.grant[k] & rr.valid)", "m.d.comb += transaction.run.eq(rr.grant[k])"),
    ("rr-arbiter-too-small", core.SCHED, "rr = OneHotRoundRobin(len(cc))", "rr = OneHotRoundRobin(len(cc) - 1)"),
    ("rr-request-ready-only", core.SCHED, "rr.requests[k].eq(transaction.ready & transaction.runnable)", "rr.requests[k].eq(transaction.ready | transaction.runnable)"),
] + [m for m in C39.MUTANTS if m[0].startswith("onehot")]
