"""C13 - simultaneous methods run together and exchange data."""

from . import core, core2, core3, core4


def check(ctx):
    core4.connect_component(ctx, "C13")
    core4.simultaneous_relations(ctx, "C13")
    core4.merged_transactions(ctx, "C13")
    from . import core7

    core7.group_has_enclosing(ctx, "C13")
    core7.group_complete(ctx, "C13")
    # a body defined under a false condition must not request: the merged transaction would run its partner without it
    core2.body_wrappers(ctx, "C13")
    # which members of a simultaneous group are enabled by their ready dependencies is decided from this set
    from . import core5

    core5.conditionally_called(ctx, "C13")


C = core4.CONNECTORS
MUTANTS = [
    ("group-test-enclosing-only", core.MANAGER, "                    for dep in body.simultaneous_list\n                ):\n                    continue\n", "                    for dep in ready_dependencies[body]\n                    if dep in body.simultaneous_list\n                ):\n                    continue\n"),
    ("group-test-no-alternatives", core.MANAGER, "return [d for d in body.simultaneous_list if d is dep or any(d in f and dep in f for f in families)]", "return [d for d in body.simultaneous_list if d is dep]"),
    ("group-test-any-partner-suffices", core.MANAGER, "return [d for d in body.simultaneous_list if d is dep or any(d in f and dep in f for f in families)]", "return list(body.simultaneous_list)"),
    ("incomplete-group-built", core.MANAGER, "                    for dep in body.simultaneous_list\n                ):\n                    continue\n", "                    for dep in body.simultaneous_list\n                ):\n                    pass\n"),
    ("connect-not-simultaneous", C, "        self.write.simultaneous(self.read)\n", ""),
    ("connect-order-instead", C, "        self.write.simultaneous(self.read)\n", "        self.write.schedule_before(self.read)\n"),
    ("connect-read-value-gated", C, "            m.d.av_comb += read_value.eq(arg)\n            return rev_read_value", "            m.d.sync += read_value.eq(arg)\n            return rev_read_value"),
    ("connect-returns-own-arg", C, "            m.d.av_comb += rev_read_value.eq(arg)\n            return read_value", "            m.d.av_comb += rev_read_value.eq(arg)\n            return rev_read_value"),
    ("simultaneous-one-directional", core.TBASE, "        for other in others:\n            other.simultaneous_list.append(self)  # type: ignore\n", ""),
    ("merged-skips-members", core.MANAGER, "                    for transaction in group:\n                        nontrivial_deps", "                    for transaction in list(group)[:1]:\n                        nontrivial_deps"),
    ("lists-not-copied", core.MANAGER, "            for elem2 in elem.simultaneous_list:\n                elem._body.simultaneous_list.append(elem2._body)\n", ""),
]
