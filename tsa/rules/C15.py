"""C15 - WideFifo behaves as a bounded queue with batched operations (level algebra, readiness, validator,
min/prefix-mask/modular-add idioms, read/write sibling agreement, clear as last writer)."""

from .common import *
from . import excl
from ..pm import pmatch, pat, find_all
from ..term import subst
from .C20 import resolve_comb

REL = "transactron/lib/fifo.py"
CAP = pat("self.col_count * self.row_count")
COLS = pat("self.col_count")
SIZES = [1, 2, 3, 4, 6, 8]


def _roles(ctx, comp, ex):
    level = None
    for h in ex.of(HwAssign):
        if h.lhs is not None and h.lhs[0] == "obj" and is_sync(h.domain) and not h.guards():
            co, k = to_lin(h.rhs)
            if co.get(h.lhs) == 1 and len(co) >= 2:
                level = h.lhs
                upd = h
    if level is None:
        raise AnalysisError("C15", comp.site, "WideFifo: occupancy register not found (no x <- x + a - b update)", missing="WideFifo: occupancy register not found (no x <- x + a - b update)")
    co, k = to_lin(upd.rhs)
    wc = [a for a, v in co.items() if v == 1 and a != level]
    rc = [a for a, v in co.items() if v == -1]
    if len(wc) != 1 or len(rc) != 1 or k != 0:
        ctx.bad("C15.level-update", upd.site, "WideFifo.level'", found=lin_str((co, k)), required="level' = level - read_count + write_count")
        return None
    ctx.ok("C15.level-update", upd.site, "WideFifo.level'", found=lin_str((co, k)), required="level' = level - read_count + write_count every cycle")
    return level, wc[0], rc[0], upd


def _min_agree(ctx, rule, site, cons, found, a, b, params, ranges, text):
    check_agree(ctx, rule, site, cons, found, ("call", ("n", "min"), (a, b), ()), params, ranges, text)


def check(ctx):
    ctx.use(REL)
    comp = Component(ctx.repo, REL, "WideFifo", rule="C15")
    comp.require_modelled("C15")
    ctx.floor("C15", "WideFifo configurations", len(comp.configs), 2, comp.site)
    from . import c15x as _c15x

    _c15x.wide_fifo_layouts(ctx)
    from . import c15y as _c15y

    _c15y.pointer_layout(ctx, comp)
    _ny = 0
    for ex in comp.configs:
        _ny += _c15y.elaborate_ranges(ctx, comp, ex, cfg_name(ex))
    ctx.floor("C15", "WideFifo range / column obligations", _ny, 6, comp.site)
    for ex in comp.configs:
        cn = cfg_name(ex)
        w, r, p, c = (need_body(ex, n, "C15", comp.site) for n in ("write", "read", "peek", "clear"))
        excl.exclusive(ctx, "C15", f"WideFifo[{cn}]", w, r)
        roles = _roles(ctx, comp, ex)
        if roles is None:
            continue
        level, wcount, rcount, upd = roles
        o = ex.obj(level)
        m = pmatch("Signal(range(Q_n))", o.ctor)
        ctx.check(m is not None and lin_equal(m["n"], ("op", "+", CAP, ("c", 1))), "C15.level-range", o.site, f"WideFifo.level.shape[{cn}]", found=tstr(o.ctor), required="Signal(range(capacity + 1))")
        from . import c15x

        c15x.wide_fifo_counters(ctx, ex, cn, level, wcount, rcount, CAP)
        t = decision_table(ex, level, sync=True)
        check_table(ctx, "C15.clear-wins", comp.site, f"WideFifo.level'[{cn}]", t, [
            (run_f(c), const_pred(0), "clear empties the queue (last writer)"),
            (f_not(run_f(c)), lambda x: x == upd.rhs, "otherwise the level update applies"),
        ])
        params = {CAP: SIZES, pat("self.read_width"): [1, 2, 3], pat("self.write_width"): [1, 2, 3]}
        rng = {level: (0, CAP)}
        # readiness
        check_agree(ctx, "C15.write-ready", w.site, f"WideFifo.write.ready[{cn}]", resolve_comb(ex, w.ready), ("op", "!=", level, CAP), params, rng, "write ready iff space remains")
        check_agree(ctx, "C15.read-ready", r.site, f"WideFifo.read.ready[{cn}]", resolve_comb(ex, r.ready), ("op", "!=", level, ("c", 0)), params, rng, "read ready iff non-empty")
        check_agree(ctx, "C15.peek-ready", p.site, f"WideFifo.peek.ready[{cn}]", resolve_comb(ex, p.ready), ("op", "!=", level, ("c", 0)), params, rng, "peek ready iff non-empty")
        # validator: the call fits
        vt = w.kwargs.get("validate_term")
        maxc = [v for t_, v in ex.config if tstr(t_) == "self.write_max_count"]
        fld = "max_count" if (maxc and maxc[0]) else "count"
        argf = ("a", ("arg", w.bodyid), fld)
        if vt is None:
            ctx.bad("C15.write-validator", w.site, f"WideFifo.write.validator[{cn}]", found="none", required=f"{fld} <= remaining")
        else:
            r2 = dict(rng)
            r2[argf] = (0, 9)
            check_agree(ctx, "C15.write-validator", w.site, f"WideFifo.write.validator[{cn}]", resolve_comb(ex, vt), ("op", "<=", argf, ("op", "-", CAP, level)), params, r2,
                        f"a write is accepted only if {fld} elements fit into the remaining space")
        # counts: run-gated pulses
        wa = ("a", ("arg", w.bodyid), "count")
        sole_writer_in_body(ctx, "C15.write-count", comp, ex, wcount, w, "write_count driven only while write runs, = count argument", rhs_pred=lambda x: x == wa, construct=f"WideFifo.write_count[{cn}]")
        ws = sole_writer_in_body(ctx, "C15.read-count-gated", comp, ex, rcount, r, "read_count driven only while read runs", construct=f"WideFifo.read_count[{cn}]")
        ra = ("a", ("arg", r.bodyid), "count")
        if ws:
            rw = pat("self.read_width")
            r3 = dict(rng)
            r3[ra] = (0, 4)
            _min_agree(ctx, "C15.read-clamp", ws[0].fact.site, f"WideFifo.read_count.value[{cn}]", resolve_comb(ex, ws[0].rhs), ra, ("call", ("n", "min"), (level, rw), ()), params, r3,
                       "read removes min(count, level, read_width) elements")
        rf, pf = returned_fields(r), returned_fields(p)
        ctx.check(rf.get("count") == rcount, "C15.read-returns-count", r.site, f"WideFifo.read.ret.count[{cn}]", found=tstr(rf.get("count", ("c", None))), required="read reports the number of removed elements")
        pc = pf.get("count")
        if pc is not None and pc[0] == "obj":
            c15x.wide_fifo_counters(ctx, ex, cn + ",available", level, pc, pc, CAP, only_read=True)
        if pc is None:
            ctx.bad("C15.peek-count", p.site, f"WideFifo.peek.ret.count[{cn}]", found="none", required="min(level, read_width)")
        else:
            _min_agree(ctx, "C15.peek-count", p.site, f"WideFifo.peek.ret.count[{cn}]", resolve_comb(ex, pc), level, pat("self.read_width"), params, rng, "peek reports min(level, read_width) available elements")
        ctx.check(rf.get("data") is not None and rf.get("data") == pf.get("data"), "C15.peek-same-data", p.site, f"WideFifo.peek.ret.data[{cn}]", found=tstr(pf.get("data", ("c", None)))[:120], required="peek shows the same elements read would return")
        no_effects(ctx, "C15.peek-effect-free", comp, ex, p)
        # head = rotate_vec_right([port.data ...], read_idx.col)[:read_width]
        head = rf.get("data")
        mh = pmatch("rotate_vec_right(Q_d, self.read_idx.col)[:self.read_width]", head) if head else None
        ok = False
        rports = None
        if mh and mh["d"][0] == "lc":
            b, it, conds = mh["d"][3][0]
            ok = mh["d"][2] == ("a", b, "data") and not conds
            rports = it
        ctx.check(ok, "C15.head", r.site, f"WideFifo.head[{cn}]", found=tstr(head)[:160] if head else "none", required="the oldest elements: read ports' data rotated right by the read column, first read_width of them")
        # pointers
        widx, ridx = pat("self.write_idx"), pat("self.read_idx")
        tw = decision_table(ex, widx, sync=True)
        tr = decision_table(ex, ridx, sync=True)
        nw = [x for x in tw.writers if enclosing_body(ex, x.fact) is w]
        plain_r = [x for x in tr.writers if x.guard is True]
        ctx.check(len(nw) == 1, "C15.write-pointer", w.site, f"WideFifo.write_idx'[{cn}]", found=f"{len(nw)} writer(s) in write", required="write advances the write pointer")
        ctx.check(len(plain_r) == 1, "C15.read-pointer", comp.site, f"WideFifo.read_idx'[{cn}]", found=f"{len(plain_r)} unconditional writer(s)", required="read_idx <- next_read_idx every cycle")
        if len(nw) != 1 or len(plain_r) != 1:
            continue
        check_table(ctx, "C15.clear-wins", comp.site, f"WideFifo.write_idx'[{cn}]", tw, [(run_f(c), const_pred(0), "clear resets the write pointer (last writer)")])
        check_table(ctx, "C15.clear-wins", comp.site, f"WideFifo.read_idx'[{cn}]", tr, [(run_f(c), const_pred(0), "clear resets the read pointer (last writer)")])
        nri = plain_r[0].rhs
        tn = decision_table(ex, nri, sync=False)
        in_read = [x for x in tn.writers if enclosing_body(ex, x.fact) is r]
        check_table(ctx, "C15.next-read-pointer", comp.site, f"WideFifo.next_read_idx[{cn}]", tn, [
            (f_not(run_f(r)), term_pred(ridx), "without read the read pointer holds (default emitted first)"),
        ] + ([(run_f(r), lambda x, v=in_read[0].rhs: x == v, "read overrides the default with the advanced pointer")] if in_read else []))
        ctx.check(len(in_read) == 1 and domain_class(in_read[0].fact.domain) == RUN_GATED, "C15.next-read-pointer", r.site, f"WideFifo.next_read_idx.read[{cn}]", found=f"{len(in_read)} writer(s) in read", required="read (and only a running read) advances it")
        # modular add idiom, both instantiations
        for nm, body, newv, idx, cnt in (("write", w, nw[0].rhs, widx, wa), ("read", r, in_read[0].rhs if in_read else None, ridx, rcount)):
            if newv is None:
                continue
            cons = f"WideFifo.incr_row_col[{nm}][{cn}]"
            col, row = ("a", idx, "col"), ("a", idx, "row")
            tc = decision_table(ex, ("a", newv, "col"), sync=False)
            trw = decision_table(ex, ("a", newv, "row"), sync=False)
            wrap = to_formula(("op", "<=", COLS, ("op", "+", col, cnt)))
            incr_rows = [x.rhs for x in trw.writers]
            inc = [x for x in incr_rows if x != row]
            ok_inc = False
            if len(inc) == 1:
                d = resolve_comb(ex, inc[0], 1)
                ok_inc = d == ("call", ("n", "mod_incr"), (row, pat("self.row_count")), ())
            ctx.check(ok_inc, "C15.next-row", body.site, cons + ".row+1", found=tstr(resolve_comb(ex, inc[0], 1)) if inc else "none", required="the next row is mod_incr(current row, row_count) of the same pointer")
            check_table(ctx, "C15.modular-add", comp.site, cons + ".col", tc, [
                (f_and(run_f(body), wrap), lin_pred(("op", "-", ("op", "+", col, cnt), COLS)), "col + count >= col_count: wrap, col' = col + count - col_count"),
                (f_and(run_f(body), f_not(wrap)), lin_pred(("op", "+", col, cnt)), "otherwise col' = col + count"),
            ])
            check_table(ctx, "C15.modular-add", comp.site, cons + ".row", trw, [
                (f_and(run_f(body), wrap), (lambda x, i=inc: bool(i) and x == i[0]), "wrap: next row"),
                (f_and(run_f(body), f_not(wrap)), term_pred(row), "otherwise same row"),
            ])
        # port addresses (siblings): Mux(i >= idx.col, idx.row, incr row of idx)
        addr = {}
        for h in ex.of(HwAssign):
            if h.lhs is not None and h.lhs[0] == "a" and h.lhs[2] == "addr" and h.lhs[1][0] == "i":
                mm = pmatch("Mux(Q_idx.col <= Q_i, Q_idx.row, Q_inc)", h.rhs)
                addr[h.lhs[1][1]] = (h, mm)
        for ports, (h, mm) in addr.items():
            ok = mm is not None and h.lhs[1][2] == mm["i"] and not h.guards() and not is_sync(h.domain)  # combinational: the port is addressed in the same cycle
            if ok:
                d = resolve_comb(ex, mm["inc"], 1)
                ok = d == ("call", ("n", "mod_incr"), (("a", mm["idx"], "row"), pat("self.row_count")), ())
                ok = ok and mm["idx"] in (widx, nri)
            ctx.check(ok, "C15.port-address", h.site, f"WideFifo.{ex.obj(ports).name if ex.obj(ports) else tstr(ports)}.addr[{cn}]", found=tstr(h.rhs),
                      required="column i is addressed with the pointer's row if i >= pointer.col, else with the next row (write: write_idx; read: next_read_idx)")
        ctx.check(len(addr) == 2, "C15.port-address", comp.site, f"WideFifo.port-addresses[{cn}]", found=f"{len(addr)} address assignment(s)", required="read and write column ports are addressed")
        # write enables: prefix mask rotated by the write column; data rotated alike
        ens = None
        for h in facts_in_body(ex, w, HwAssign):
            mm = pmatch("rotate_left(Q_e, self.write_idx.col)", h.rhs) if h.rhs else None
            if mm and h.lhs is not None and h.lhs[0] == "call" and h.lhs[1] == ("n", "Cat"):
                ens = (h, mm["e"])
        ok = False
        if ens:
            h, e = ens
            lhs_lc = h.lhs[2][0] if h.lhs[2] else None
            okl = lhs_lc is not None and lhs_lc[0] == "lc" and lhs_lc[2] == ("a", lhs_lc[3][0][0], "en") and domain_class(h.domain) == RUN_GATED and not is_sync(h.domain)
            ew0 = writers_of(ex, e) if e[0] == "obj" else []
            d = ew0[0].rhs if len(ew0) == 1 else e
            mk = pmatch("Cat(Q_g)", d)
            okm = False
            if mk and mk["g"][0] == "lc":
                b, it, conds = mk["g"][3][0]
                okm = mk["g"][2] == ("op", "<", b, wa) and it == ("call", ("n", "range"), (COLS,), ()) and not conds
            ew = [x for x in writers_of(ex, e)] if e[0] == "obj" else []
            okg = all(enclosing_body(ex, x.fact) is w for x in ew)
            ok = okl and okm and okg
        ctx.check(ok, "C15.write-enables", ens[0].site if ens else w.site, f"WideFifo.write.enables[{cn}]", found=tstr(ens[0].rhs) + " with " + tstr(resolve_comb(ex, ens[1], 1))[:120] if ens else "none",
                  required="column enables = (i < count for every column i) rotated left by the write column, only while write runs")
        dat = [h for h in facts_in_body(ex, w, HwAssign) if h.lhs is not None and h.lhs[0] == "a" and h.lhs[2] == "data"]
        ok = len(dat) == 1
        if ok:
            rhs = dat[0].rhs
            if rhs[0] == "i" and ex.vardef(rhs[1]) is not None:
                rhs = ("i", ex.vardef(rhs[1]), rhs[2])
            mm = pmatch("rotate_vec_left(Q_d, self.write_idx.col)[Q_i]", rhs)
            ok = mm is not None and dat[0].lhs[1][0] == "i" and dat[0].lhs[1][2] == mm["i"] and has_arg_data(mm["d"], w)
        ctx.check(ok, "C15.write-data", dat[0].site if dat else w.site, f"WideFifo.write.data[{cn}]", found=tstr(dat[0].rhs)[:160] if dat else "none",
                  required="column i receives element i of the argument data (zero-extended) rotated left by the write column - same rotation as the enables")
        # transparency per column
        tp = None
        for oid, o2 in ex.objects.items():
            if o2.ctor[0] == "lc" and ex.obj(o2.ctor[2]) is not None:
                pc_ = ex.obj(o2.ctor[2]).ctor
                mm = pmatch("Q_m.read_port(domain=Q_d, transparent_for=[Q_p])", pc_)
                # the iteration must pair memory k with write port k (zip of the two column lists)
                if mm and len(o2.ctor[3]) == 1 and mm["m"][0] == "i" and mm["p"][0] == "i" and mm["m"][2] == mm["p"][2]:
                    wp = ex.obj(mm["p"][1])
                    if wp is not None and wp.ctor[0] == "lc" and ex.obj(wp.ctor[2]) is not None and pmatch("Q_mem.write_port()", ex.obj(wp.ctor[2]).ctor):
                        tp = (o2, mm)
        ctx.check(tp is not None and tp[1]["d"] == ("c", "sync"), "C15.read-ports-transparent", tp[0].site if tp else comp.site, f"WideFifo.read_ports[{cn}]", found=tstr(tp[0].ctor)[:200] if tp else "none",
                  required="each column's read port is synchronous and transparent for that column's write port")


def has_arg_data(t, w) -> bool:
    return any(s == ("a", ("arg", w.bodyid), "data") for s in subterms(t))


MUTANTS = [
    ("level-ignores-read", REL, "m.d.sync += level.eq(level - read_count + write_count)", "m.d.sync += level.eq(level + write_count)"),
    ("remaining-off", REL, "m.d.comb += remaining.eq(col_count * row_count - level)", "m.d.comb += remaining.eq(col_count * row_count - level - 1)"),
    ("read-available-max", REL, "read_available.eq(Mux(level > self.read_width, self.read_width, level))", "read_available.eq(Mux(level > self.read_width, level, self.read_width))"),
    ("read-clamp-missing", REL, "m.d.comb += read_count.eq(Mux(count > read_available, read_available, count))", "m.d.comb += read_count.eq(count)"),
    ("validator-lt", REL, "validate_write = lambda count, data: count <= remaining  # noqa: E731", "validate_write = lambda count, data: count < remaining  # noqa: E731"),
    ("validator-max-count-uses-count", REL, "validate_write = lambda count, max_count, data: max_count <= remaining  # noqa: E731", "validate_write = lambda count, max_count, data: count <= remaining  # noqa: E731"),
    ("prefix-mask-le", REL, "m.d.comb += ens.eq(Cat(i < count for i in range(col_count)))", "m.d.comb += ens.eq(Cat(i <= count for i in range(col_count)))"),
    ("enables-not-rotated", REL, "Cat(port.en for port in write_ports).eq(rotate_left(ens, write_idx.col))", "Cat(port.en for port in write_ports).eq(ens)"),
    ("wrap-compare-gt", REL, "with m.If(idx.col + count >= col_count):", "with m.If(idx.col + count > col_count):"),
    ("wrap-col-not-reduced", REL, "m.d.comb += chg_idx.col.eq(idx.col + count - col_count)", "m.d.comb += chg_idx.col.eq(idx.col + count)"),
    ("write-addr-uses-read-idx", REL, "m.d.comb += port.addr.eq(Mux(i >= write_idx.col, write_idx.row, incr_write_row))", "m.d.comb += port.addr.eq(Mux(i >= write_idx.col, write_idx.row, incr_read_row))"),
    ("read-addr-current-idx", REL, "m.d.comb += port.addr.eq(Mux(i >= next_read_idx.col, next_read_idx.row, incr_next_read_row))", "m.d.comb += port.addr.eq(Mux(i >= read_idx.col, read_idx.row, incr_read_row))"),
    ("clear-keeps-level", REL, "            m.d.sync += read_idx.eq(0)\n            m.d.sync += level.eq(0)", "            m.d.sync += read_idx.eq(0)"),
    ("peek-count-read-count", REL, 'return {"count": read_available, "data": head}', 'return {"count": read_count, "data": head}'),
    ("head-rotated-by-write", REL, "head = rotate_vec_right(read_data, read_idx.col)[: self.read_width]", "head = rotate_vec_right(read_data, write_idx.col)[: self.read_width]"),
    ("read-default-after", REL, """        m.d.comb += next_read_idx.eq(read_idx)
        m.d.sync += read_idx.eq(next_read_idx)

        @def_method(m, self.read, level != 0)
        def _(count):
            m.d.comb += read_count.eq(Mux(count > read_available, read_available, count))
            m.d.comb += next_read_idx.eq(incr_row_col(read_idx, incr_read_row, read_count))
            return {"count": read_count, "data": head}
""", """        m.d.sync += read_idx.eq(next_read_idx)

        @def_method(m, self.read, level != 0)
        def _(count):
            m.d.comb += read_count.eq(Mux(count > read_available, read_available, count))
            m.d.comb += next_read_idx.eq(incr_row_col(read_idx, incr_read_row, read_count))
            return {"count": read_count, "data": head}

        m.d.comb += next_read_idx.eq(read_idx)
"""),
    ("write-ready-level", REL, "@def_method(m, self.write, remaining != 0, validate_arguments=validate_write)", "@def_method(m, self.write, level != 0, validate_arguments=validate_write)"),
]
