"""C10: the result of a library method must not depend on a `run` the scheduler has not computed yet.

`library_ordering_rule` (core4) covers a *ready* that reads another body's run.  The same dependency exists through the data:
a statement in the ordinary `comb` domain inside a method body is guarded by that body's run (TModule), so a signal assigned
there carries the run of its body.  If the value RETURNED by method A combinationally reads such a signal of body B

  * B != A: the caller of A sees B.run in its data; any use of that data in a condition around a call (or in a validated
    argument) closes the loop run(B) -> data -> enable/runnable -> run unless B is scheduled before A.  Forwarder declares
    exactly this (write.schedule_before(read)); F45 is the instance that did not (transparent MemoryBank).
  * B == A: the result depends on the method's own run; handing it to a method with validate_arguments in the same
    transaction makes runnable depend on run (F46, listed).  Results belong in av_comb / top_comb.
"""

from __future__ import annotations

from ..comp import Component, strip_index
from ..front import AnalysisError
from ..report import Ctx
from ..stage import BodyDef, HwAssign, Relation
from ..term import subterms, tstr


def _norm(t):
    """Index positions forgotten: write_port[i].en and write_port[j].en are the same family of signals."""
    if isinstance(t, tuple):
        if len(t) == 3 and t[0] == "i":
            return _norm(t[1])
        if len(t) == 3 and t[0] == "b":
            return _norm(t[2])  # an element of a collection, bound by a loop over it
        return tuple(_norm(x) for x in t)
    return t


def _gating_bodies(ex, t, depth: int = 5):
    """{body id: (site, signal)} for the bodies whose run guards a signal the term `t` combinationally reads."""
    out = {}
    seen = set()
    todo = [t]
    hw = [h for h in ex.of(HwAssign) if h.lhs is not None and h.domain[0] == "c" and h.domain[1] in ("comb", "av_comb", "top_comb")]
    index = {}
    for h in hw:
        index.setdefault(_norm(h.lhs), []).append(h)
    for _ in range(depth):
        nxt = []
        for x in todo:
            for s in subterms(x):
                if not isinstance(s, tuple) or s in seen:
                    continue
                seen.add(s)
                if s[0] in ("obj", "a", "i"):
                    for h in index.get(_norm(s), ()):
                        nxt.append(h.rhs)
                        for fr in h.frames:
                            if fr[0] in ("if", "elif", "avoid", "switch"):
                                nxt.append(fr[1])
                        if h.domain[1] == "comb":
                            for fr in h.frames:
                                if fr[0] == "body":
                                    out.setdefault(fr[1], (h.site, s))
        todo = nxt
        if not todo:
            break
    return out


def merged_enable_run_free(ctx: Ctx, pid: str):
    """F47: the enable of a call is part of `runnable` when the callee (or anything below it) has validate_arguments - the
    manager hands the accumulated enable to the validator.  The merged transaction built for a simultaneous group calls its
    members with enable_call = all(run of their conditional ready dependencies): a `run` inside an enable, hence inside
    runnable of the very transaction whose run produces it.  (C12 needs the members disabled when the enclosing body does not
    run; the two requirements meet only if that enable is derived from the callers' enables instead of from run.)"""
    from ..pyfacts import Fn, loops
    from ..stage import MethodCall
    from .core import MANAGER

    rule = f"{pid}.merged-enable-reads-run"
    ctx.use(MANAGER)
    fn = Fn(ctx.repo, MANAGER, "TransactionManager._simultaneous", rule)
    calls = [(x, c) for x, c in fn.facts(MethodCall) if len(loops(c)) == 2]
    ctx.floor(rule, "member calls of merged transactions", len(calls), 1, fn.site)
    seen = set()
    for x, c in calls:
        if c.site in seen:
            continue
        seen.add(c.site)
        reads_run = c.enable is not None and any(isinstance(s, tuple) and len(s) == 3 and s[0] == "a" and s[2] == "run" for s in subterms(c.enable))
        ctx.check(not reads_run, rule, c.site, "_simultaneous.member-call.enable", found=f"enable_call = {tstr(c.enable)[:120] if c.enable is not None else None}",
                  required="the enable of a call does not read a run signal: it reaches runnable through validate_arguments of the callee")


def library_result_rule(ctx: Ctx, pid: str, dirs=("transactron/lib/",)):
    rule_o = f"{pid}.result-reads-run"
    rule_s = f"{pid}.result-reads-own-run"
    n = 0
    for rel, mi in sorted(ctx.repo.modules.items()):
        if not any(rel.startswith(d) for d in dirs):
            continue
        for cname_, ci in mi.classes.items():
            if "elaborate" not in ci.methods:
                continue
            ctx.use(rel)
            comp = Component(ctx.repo, rel, cname_, rule=rule_o)
            reported = set()
            for ex in comp.configs:
                bs = ex.of(BodyDef)
                by_id = {b.bodyid: b for b in bs}
                for a in bs:
                    res = a.ret if a.ret is not None else a.out  # def_method: the returned value; body(): the out= argument
                    if res is None or res == ("c", None):
                        continue
                    for bid, (site, sig) in _gating_bodies(ex, res).items():
                        b = by_id.get(bid)
                        if b is None:
                            continue
                        n += 1
                        an, bn = tstr(strip_index(a.owner)), tstr(strip_index(b.owner))
                        if b is a:
                            key = (cname_, an, "own")
                            if key in reported:
                                continue
                            reported.add(key)
                            ctx.check(False, rule_s, a.site, f"{cname_}.{an.replace('self.', '')}", found=f"the result reads {tstr(sig)[:80]}, assigned in the run-guarded comb domain of the same body ({site})",
                                      required="the value a method returns does not depend on its own run (compute it in av_comb / top_comb): a caller that hands it to a method with "
                                               "validate_arguments, in the same transaction, makes runnable depend on run")
                        else:
                            declared = any(r.kind == "schedule_before" and _norm(strip_index(r.subject)) == _norm(strip_index(b.owner))
                                           and any(_norm(strip_index(x)) == _norm(strip_index(a.owner)) for x in r.args) for r in ex.of(Relation))
                            nested = any(fr[0] == "body" and fr[1] == b.bodyid for fr in a.frames)
                            key = (cname_, an, bn)
                            if key in reported and (declared or nested):
                                continue
                            reported.add(key)
                            ctx.check(declared or nested, rule_o, a.site, f"{cname_}.{an.replace('self.', '')}.result<-{bn.replace('self.', '')}.run",
                                      found=f"the result reads {tstr(sig)[:80]} (driven under the run of {bn}, {site}); relations: "
                                      + (", ".join(f"{tstr(r.subject)}.{r.kind}({', '.join(tstr(x) for x in r.args)})" for r in ex.of(Relation)) or "none"),
                                      required=f"{bn}.schedule_before({an}): the result of {an} carries the run of {bn}")
    ctx.count(f"{rule_o}:instances", n)
    ctx.floor(rule_o, "results that read a run-guarded signal", n, 1, dirs[0])
