"""C21: index agreement inside MemoryBank's per-port data path (found by the mutation sweep: `x[i + 1]`, `&`/`|`,
`==`/`!=` in the forwarding plumbing survived the protocol tables).

Per-read-port lists (built over range(reads_ports)) are used with one and the same index inside a statement; inside a
comprehension over the write ports, per-write-port lists are used with that comprehension's index; a forwarding match is
`write_port[j].en & (write_port[j].addr == <tracked address>[i])`."""

from __future__ import annotations

from ..logic import atoms_of, equivalent, f_and, to_formula
from ..pm import pat, pmatch
from ..stage import HwAssign
from ..term import tstr
from .core import A


def _port_lists(ex):
    rp, wp = set(), set()
    for oid, o in ex.objects.items():
        c = o.ctor
        if c[0] == "lc" and len(c[3]) == 1:
            it = c[3][0][1]
            if it == pat("range(self.reads_ports)"):
                rp.add(("obj", oid))
            if it == pat("range(self.writes_ports)"):
                wp.add(("obj", oid))
    return rp, wp


def _walk(t, stop_at_lc: bool):
    """Sub-terms of t; comprehensions are yielded but (when stop_at_lc) not entered."""
    stack = [t]
    while stack:
        x = stack.pop()
        if not isinstance(x, tuple) or not x:
            continue
        yield x
        if x[0] == "lc" and stop_at_lc and x is not t:
            continue
        for y in x[1:]:
            if isinstance(y, tuple):
                stack.append(y)


def _uses(t, lists, stop_at_lc=False):
    return [(x[1], x[2]) for x in _walk(t, stop_at_lc) if len(x) == 3 and x[0] == "i" and x[1] in lists]


def _lcs(t):
    return [x for x in _walk(t, False) if x[0] == "lc" and len(x) == 4]


def data_path_indices(ctx, comp, pid="C21"):
    n_stmt = n_lc = n_match = 0
    for ex in comp.configs:
        rp, wp = _port_lists(ex)
        if not rp or not wp:
            continue
        for h in ex.of(HwAssign):
            if h.lhs is None:
                continue
            # (1) one read-port index per statement
            uses = _uses(h.lhs, rp) + _uses(h.rhs, rp)
            idx = {i for _, i in uses}
            if uses:
                n_stmt += 1
                ctx.check(len(idx) == 1 and all(i[0] == "b" for i in idx), f"{pid}.port-index-agreement", h.site, f"MemoryBank.read-port-index@{tstr(h.lhs)[:40]}", found=", ".join(sorted({f"{tstr(l)}[{tstr(i)}]" for l, i in uses}))[:200],
                          required="all per-read-port signals in one statement belong to the same port: the plain index of the enclosing port loop / method")
            # (2) comprehensions over the write ports use their own index on every per-write-port list (nested ones checked on their own)
            for x in _lcs(h.rhs):
                if len(x[3]) != 1 or x[3][0][1] != pat("range(self.writes_ports)"):
                    continue
                b = x[3][0][0]
                wuses = _uses(x[2], wp, stop_at_lc=True)
                if not wuses:
                    continue
                n_lc += 1
                ctx.check(all(i == b for _, i in wuses), f"{pid}.port-index-agreement", h.site, f"MemoryBank.write-port-index@{tstr(h.lhs)[:40]}", found=", ".join(sorted({f"{tstr(l)}[{tstr(i)}]" for l, i in wuses}))[:200],
                          required="inside `for j in range(writes_ports)` every per-write-port signal is taken at index j")
                # (3) forwarding match: enable AND address equality of write port j against the tracked address of this read port
                # a nested comprehension over the write ports is taken at this comprehension's index
                for y in _walk(x[2], True):
                    if len(y) == 3 and y[0] == "i" and y[1][0] == "lc" and len(y[1][3]) == 1 and y[1][3][0][1] == pat("range(self.writes_ports)"):
                        ctx.check(y[2] == b, f"{pid}.port-index-agreement", h.site, f"MemoryBank.write-port-list-index@{tstr(h.lhs)[:40]}", found=f"[...][{tstr(y[2])}] inside `for {tstr(b)}`", required="a per-write-port list is taken at the index of the enclosing write-port loop")
                # forwarding pairs (selector, write_port[j].data): the selector is the match of write port j
                if not (x[2][0] == "tuple" and len(x[2]) == 3 and x[2][2][0] == "a" and x[2][2][2] == "data" and x[2][2][1][0] == "i" and x[2][2][1][1] in wp):
                    continue
                sel, jb = x[2][1], b
                if sel[0] == "i" and sel[1][0] == "lc" and len(sel[1][3]) == 1 and sel[1][3][0][1] == pat("range(self.writes_ports)"):
                    sel, jb = sel[1][2], sel[1][3][0][0]
                n_match += 1
                f = to_formula(sel)
                ats = atoms_of(f)
                en = [a_ for a_ in ats if pmatch("Q_w[Q_j].en", a_)]
                eq = [a_ for a_ in ats if pmatch("Q_w[Q_j].addr == Q_x", a_) or pmatch("Q_x == Q_w[Q_j].addr", a_)]
                ok = len(en) == 1 and len(eq) == 1 and len(ats) == 2 and equivalent(f, f_and(A(en[0]), A(eq[0]))) is None
                if ok:
                    me = pmatch("Q_w[Q_j].en", en[0])
                    mq = pmatch("Q_w[Q_j].addr == Q_x", eq[0]) or pmatch("Q_x == Q_w[Q_j].addr", eq[0])
                    ok = me["j"] == jb == mq["j"] and me["w"] == mq["w"] and me["w"] in wp and mq["x"][0] == "i" and mq["x"][1] in rp
                ctx.check(ok, f"{pid}.forwarding-match", h.site, f"MemoryBank.match@{tstr(h.lhs)[:40]}", found=tstr(sel)[:160],
                          required="the selector of a forwarded write is write_port[j].en & (write_port[j].addr == tracked address of this read port): a write in this cycle to the tracked row")
    ctx.floor(pid, "MemoryBank statements over per-read-port signals", n_stmt, 8, comp.site)
    ctx.floor(pid, "MemoryBank write-port comprehensions", n_lc, 2, comp.site)
    ctx.floor(pid, "MemoryBank forwarding matches", n_match, 2, comp.site)
