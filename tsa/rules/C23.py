"""C23 - multiport memories: well-formedness only (delay-register shapes, port index agreement, skip-own-index
maps, transparency control, init placement, granularity consistency).  Equivalence with an ideal memory is NOT decided."""

from .common import *
from ..logic import eval_seq, evalt
from ..pm import pmatch, pat, find_all, has
from ..term import subst
from . import c23x

REL = "transactron/utils/amaranth_ext/memory.py"
CLASSES = ["MultiReadMemory", "MultiportXORMemory", "OneHotCodedILVT", "MultiportILVTMemory"]


def _elt_ctor(ex, t):
    """Constructor term of a Signal object or of the elements of a list of Signals."""
    o = ex.obj(t)
    if o is None:
        return None
    c = o.ctor
    if c[0] == "lc":
        eo = ex.obj(c[2])
        if eo is not None:
            return eo.ctor
        if c[2][0] == "lc" and ex.obj(c[2][2]) is not None:
            return ex.obj(c[2][2]).ctor
    return c


def _root_obj(t):
    while t[0] == "i":
        t = t[1]
    return t if t[0] == "obj" else None


def _kind_of_rhs(ex, rhs, kinds):
    if rhs[0] == "a" and rhs[2] in ("addr", "data", "en") and (has("self.read_ports", rhs) or has("self.write_ports", rhs) or rhs[1][0] in ("obj", "i", "b")):
        return rhs[2]
    r = _root_obj(rhs)
    if r is not None and r in kinds:
        return kinds[r]
    return None


def _shape_class(ctor):
    """'addr' / 'data' / 'en' / 'bit' / None for a Signal constructor term."""
    if ctor is None or ctor[0] != "call":
        return None
    if ctor[1] == ("n", "Signal"):
        if not ctor[2]:
            return "bit"
        s = ctor[2][0]
        if s == pat("range(self.depth)") or pmatch("Q_p.addr.shape()", s):
            return "addr"
        if s == pat("self.shape"):
            return "data"
        if pmatch("Q_p.en.shape()", s):
            return "en"
        return "other:" + tstr(s)
    m = pmatch("Signal.like(Q_x, reset_less=Q_r)", ctor) or pmatch("Signal.like(Q_x)", ctor)
    if m and m["x"][0] == "a" and m["x"][2] in ("addr", "data", "en"):
        return m["x"][2]
    return None


def shapes_rule(ctx, comp, ex, cls, cn):
    """F-SHAPE: a register that delays an address has an address shape; one that delays data has the data shape."""
    kinds = {}
    for _ in range(3):
        for h in ex.of(HwAssign):
            if h.lhs is None or not is_sync(h.domain):
                continue
            r = _root_obj(h.lhs)
            if r is None:
                continue
            k = _kind_of_rhs(ex, h.rhs, kinds)
            if k is not None:
                kinds.setdefault(r, k)
    n = 0
    for r, k in sorted(kinds.items()):
        ctor = _elt_ctor(ex, r)
        sc = _shape_class(ctor)
        if sc is None:
            continue
        o = ex.obj(r)
        n += 1
        if k == "addr":
            ok = sc == "addr"
        elif k == "data":
            ok = sc == "data" or sc.startswith("other:")  # ILVT tables store bank ids, checked elsewhere
        else:
            ok = sc in ("en", "bit")
        ctx.check(ok, "C23.delay-register-shape", o.site, f"{cls}.{o.name}.shape", found=f"delays a port {k}; declared {tstr(ctor)}",
                  required=f"a register holding a port {k} has the {k} shape (a narrower register truncates it)")
    return n


def index_rule(ctx, comp, ex, cls, cn):
    """F-IDX: a per-port structure indexed by a loop binder is wired to the user port of the *same* index, except the
    feedback maps, which must be the skip-own-index bijection."""
    n = 0
    for h in ex.of(HwAssign):
        if h.lhs is None or h.rhs is None:
            continue
        lm = pmatch("Q_arr[Q_i].Q_f", h.lhs) if False else None
        # lhs index
        li = None
        if h.lhs[0] == "a" and h.lhs[1][0] == "i" and h.lhs[1][2][0] == "b":
            li = h.lhs[1][2]
        elif h.lhs[0] == "i" and h.lhs[2][0] == "b":
            li = h.lhs[2]
        if li is None:
            continue
        for m in find_all("self.read_ports[Q_j]", h.rhs) + find_all("self.write_ports[Q_j]", h.rhs):
            j = m["j"]
            if j[0] == "b" and any(fr[0] == "for" and j in fr[1] for fr in h.frames):
                n += 1
                # both sides iterate the same kind of port list
                same = j == li
                lp = [fr for fr in h.frames if fr[0] == "for" and li in fr[1]]
                ctx.check(same or _different_domains(ex, h, li, j), "C23.port-index", h.site, f"{cls}.{tstr_short(h.lhs)}<-{tstr_short(m_term(m, h.rhs))}",
                          found=f"{tstr(h.lhs)} <- {tstr(h.rhs)[:80]}", required="structure k of a per-port family is wired to user port k")
    return n


def m_term(m, rhs):
    return rhs


def tstr_short(t):
    from ..term import canon_binders

    return tstr(canon_binders(t))[:60]


def _different_domains(ex, h, li, j) -> bool:
    """Index binders of different loops over different port lists (e.g. bank k x read port idx) are unrelated."""
    fl = [fr for fr in h.frames if fr[0] == "for"]
    li_it = [fr[2] for fr in fl if li in fr[1]]
    j_it = [fr[2] for fr in fl if j in fr[1]]
    return bool(li_it and j_it and li_it != j_it)


def skip_own_index(ctx, comp, ex, cls, cn):
    """The feedback maps `i + 1 if i >= index else i` are bijections from range(n-1) onto range(n) \\ {index}."""
    n = 0
    seen = set()
    for f in ex.facts:
        terms = []
        if isinstance(f, HwAssign):
            terms = [f.rhs, f.lhs]
        for t in terms:
            if t is None:
                continue
            for s in subterms(t):
                if s[0] == "ife" and s not in seen:
                    bs = [x for x in subterms(s) if x[0] == "b"]
                    bs = list(dict.fromkeys(bs))
                    if len(bs) != 2:
                        continue
                    seen.add(s)
                    # which binder ranges over n-1 elements?
                    small = [b for b in bs if lin_equal(_range_len(b), pat("len(self.write_ports) - 1"))]
                    big = [b for b in bs if b not in small]
                    if len(small) != 1 or len(big) != 1:
                        continue
                    try:
                        evalt(_ife_to_mux(s), {small[0]: 0, big[0]: 0})
                    except Exception:  # noqa: BLE001
                        continue  # not an integer index map (e.g. a selection between signals)
                    n += 1
                    okall = True
                    detail = ""
                    for size in range(2, 7):
                        for own in range(size):
                            img = []
                            for i in range(size - 1):
                                try:
                                    img.append(int(evalt(_ife_to_mux(s), {small[0]: i, big[0]: own})))
                                except Exception as e:  # noqa: BLE001
                                    raise AnalysisError("C23.skip-own-index", f.site, f"cannot evaluate {tstr(s)}: {e}")
                            if sorted(img) != [k for k in range(size) if k != own]:
                                okall = False
                                detail = f"ports={size}, own={own}: image {img}"
                                break
                        if not okall:
                            break
                    ctx.check(okall, "C23.skip-own-index", f.site, f"{cls}.feedback-map", found=tstr(s) + (" " + detail if detail else " is a bijection onto the other write ports for 2..6 ports"),
                              required="feedback bank i of write port k serves exactly the other write ports, each once")
    return n


def _range_len(b):
    it = b[2]
    m = pmatch("range(Q_n)", it)
    if m:
        return m["n"]
    m = pmatch("range(len(Q_x))", it)
    return ("c", -1)


def _ife_to_mux(t):
    from ..term import rewrite

    return rewrite(t, lambda x: ("call", ("n", "Mux"), (x[1], x[2], x[3]), ()) if x[0] == "ife" else None)


def transparency_rule(ctx, comp, ex, cls, cn):
    """Same-cycle bypass is applied exactly for the write ports listed in the read port's transparent_for."""
    n = 0
    for f in ex.facts:
        for fr in f.frames:
            if fr[0] == "py" and pmatch("Q_w in Q_r.transparent_for", fr[1]):
                n += 1
            elif fr[0] == "py" and "transparent_for" in tstr(fr[1]) and not has("Q_w in Q_r.transparent_for", fr[1]):
                # transparency is a relation (read port, write port), not a flag of the read port
                ctx.bad("C23.transparency-membership", f.site, f"{cls}.transparent_for.test[{cn}]", found=f"bypass decided by `{tstr(fr[1])}`",
                        required="the same-cycle bypass from a write port is applied only if that write port is a member of the read port's transparent_for")
    for h in ex.of(HwAssign):
        for s in subterms(h.rhs) if h.rhs else []:
            if s[0] == "lc":
                for b, it, conds in s[3]:
                    for c in conds:
                        if pmatch("Q_w in Q_r.transparent_for", c):
                            n += 1
    for oid, o in ex.objects.items():
        if has("Q_w in Q_r.transparent_for", o.ctor):
            n += 1
    return n


def gran_rule(ctx, comp, ex, cls, cn):
    """F-GRAN: a memory whose write ports may carry a granule mask must treat the mask granule-wise wherever it
    decides which *data* a reader sees."""
    ci = comp.ci
    rejects = False
    wp = ctx.repo.find_method(ci, "write_port")
    if wp is not None:
        import ast as _ast

        for nnode in _ast.walk(wp.node):
            if isinstance(nnode, _ast.If) and "granularity is not None" in _ast.unparse(nnode.test) and any(isinstance(x, _ast.Raise) for x in nnode.body):
                rejects = True
    collapses = []
    for h in ex.of(HwAssign):
        if h.rhs is None:
            continue
        for s in subterms(h.rhs):
            if pmatch("Q_p.en.any()", s) and has("self.write_ports", s):
                collapses.append((h, s))
    passes_mask = any(h.lhs is not None and h.lhs[0] == "a" and h.lhs[2] == "en" and h.rhs is not None and pmatch("self.write_ports[Q_k].en", h.rhs) for h in ex.of(HwAssign)) or \
        any(h.lhs is not None and h.lhs[0] == "a" and h.lhs[2] == "en" and h.rhs is not None and h.rhs[0] == "a" and h.rhs[2] == "en" for h in ex.of(HwAssign))
    cons = f"{cls}.granularity"
    c23x.internal_write_port_granularity(ctx, ex, cls, rejects)
    if rejects:
        ctx.ok("C23.granularity-consistency", wp.site, cons, found="write_port() rejects granularity", required="row-level bookkeeping is exact without granule masks")
        return 1
    if collapses:
        h, s = collapses[0]
        ctx.bad("C23.granularity-consistency", h.site, cons, found=f"granularity accepted and passed to the banks, but the live-value table is written with {tstr(s)} (row level) and the bypass forwards whole words",
                required="either reject granularity or keep the live-value table / bypass per granule")
        return 1
    ctx.ok("C23.granularity-consistency", comp.site, cons, found="the mask is passed 1:1 to a port of the same granularity" if passes_mask else "no use of the mask", required="mask never collapsed into a row-level choice of data")
    return 1


def init_rule(ctx, comp, ex, cls, cn):
    """Where the initial contents go.  The memory as a whole has to start as `init`:
       MultiReadMemory        every replica holds init;
       MultiportXORMemory     the row value is the XOR of the banks: bank 0 holds init, the others 0 - and so does every
                              memory that mirrors a bank (the feedback memories of write port k mirror bank k), F6;
       MultiportILVTMemory    bank 0 holds init and is the live bank everywhere: the live-value table starts at 0 (it is
                              not data: F7), the other banks are empty;
       OneHotCodedILVT        holds no data: its banks start empty."""
    n = 0
    for oid, o in ex.objects.items():
        c = o.ctor
        is_table = c[0] == "call" and c[1] == ("a", ("self",), "memory_type")
        if c[0] == "call" and (c[1] in (("n", "MultiReadMemory"), ("a", ("n", "memory"), "Memory")) or is_table):
            kw = dict(c[3])
            init = kw.get("init")
            if init is None:
                continue
            n += 1
            val = ex.vardef(init) or init
            cons = f"{cls}.{o.name}.init"
            if cls == "MultiReadMemory":
                ctx.check(init == pat("self.init"), "C23.init-placement", o.site, cons, found=tstr(init), required="every replica holds the initial contents")
            elif is_table or cls == "OneHotCodedILVT":
                ctx.check(val == ("list",), "C23.init-placement", o.site, cons, found=tstr(val), required="[]: a live-value table holds bank numbers / coding vectors, not data; it starts at 0 (bank 0 live)")
            else:
                # a data bank, or a mirror of one: created under the loop over the write ports
                ok = val[0] == "ife" and pmatch("Q_i == 0", val[1]) is not None and val[2] == pat("self.init") and val[3] == ("list",)
                if ok:
                    # the index compared with 0 is the bank index: the variable of the loop over the write ports
                    iv = pmatch("Q_i == 0", val[1])["i"]
                    ok = iv[0] == "b" and any(s == ("a", ("self",), "write_ports") or (s[0] == "obj" and s != ("obj", oid)) for s in subterms(iv[2]) if isinstance(s, tuple) and s)
                ctx.check(ok, "C23.init-placement", o.site, cons, found=tstr(val), required="self.init if <bank index> == 0 else []: bank 0 and every memory mirroring it hold the initial contents, the other banks 0")
    return n


def check(ctx):
    ctx.use(REL)
    totals = {"shape": 0, "index": 0, "skip": 0, "transp": 0, "init": 0, "gran": 0}
    for cls in CLASSES:
        comp = Component(ctx.repo, REL, cls, rule="C23")
        comp.require_modelled("C23")
        from . import kinds

        totals["reset-less-registers"] = totals.get("reset-less-registers", 0) + kinds.register_wire_discipline(ctx, "C23", comp, cls)
        totals["driven"] = totals.get("driven", 0) + kinds.read_locals_driven(ctx, "C23", comp, cls)
        for k, ex in enumerate(comp.configs):
            cn = cfg_name(ex)
            totals["shape"] += shapes_rule(ctx, comp, ex, cls, cn)
            totals["index"] += index_rule(ctx, comp, ex, cls, cn)
            totals["skip"] += c23x.skip_own_index_maps(ctx, ex, cls)
            totals["family"] = totals.get("family", 0) + c23x.index_families(ctx, ex, cls)
            nt = transparency_rule(ctx, comp, ex, cls, cn)
            totals["transp"] += nt
            if cls in ("MultiReadMemory", "MultiportXORMemory", "MultiportILVTMemory") and k == 0:
                ctx.check(nt >= 1, "C23.transparency-membership", comp.site, f"{cls}.transparent_for", found=f"{nt} membership test(s) `write_port in read_port.transparent_for`",
                          required="this memory decides its same-cycle bypass per (read port, write port) by membership in transparent_for")
            totals["init"] += init_rule(ctx, comp, ex, cls, cn)
            from . import c23z

            totals["timing"] = totals.get("timing", 0) + c23z.timing(ctx, comp, ex, cls, cn)
            from . import c23w

            totals["submodule-loops"] = totals.get("submodule-loops", 0) + c23w.submodule_loops(ctx, ex, cls, cn)
            totals["decoding"] = totals.get("decoding", 0) + c23w.ilvt_decoding(ctx, ex, cls, cn)
            totals["coding"] = totals.get("coding", 0) + c23w.coding_tables(ctx, ex, cls, cn)
            from . import c23v

            totals["index-typing"] = totals.get("index-typing", 0) + c23v.index_typing(ctx, comp, ex, cls, cn)
            if cls == "MultiportILVTMemory":
                from . import c23y

                totals["ilvt-width"] = totals.get("ilvt-width", 0) + c23y.ilvt_entry_width(ctx, ex)
            if k == 0:
                totals["gran"] += gran_rule(ctx, comp, ex, cls, cn)
    from . import c23w as _w

    totals["ports"] = _w.ports(ctx)
    for k, v in totals.items():
        ctx.analysed[f"C23:{k}"] = v
    ctx.floor("C23", "timing obligations", totals.get("timing", 0), 60, REL)
    ctx.floor("C23", "one-hot coding tables", totals.get("coding", 0), 8, REL)
    ctx.floor("C23", "live-value table decodings", totals.get("decoding", 0), 2, REL)
    ctx.floor("C23", "delay registers with a port role", totals["shape"], 12, REL)
    ctx.floor("C23", "port index agreements", totals["index"], 10, REL)
    ctx.floor("C23", "skip-own-index maps", totals["skip"], 2, REL)
    ctx.floor("C23", "transparency membership tests", totals["transp"], 3, REL)
    ctx.floor("C23", "memory banks with init", totals["init"], 3, REL)
    ctx.check(totals["transp"] >= 3, "C23.transparency-membership", REL, "memory.transparent_for", found=f"{totals['transp']} membership test(s) `write_port in read_port.transparent_for`",
              required="the same-cycle bypass of each multiport memory is controlled by membership in transparent_for", nontrivial=False)


MUTANTS = [
    ("ilvt-read-addr-data-shape", REL, "read_addr_bypass = Signal(read_port.addr.shape(), reset_less=True)", "read_addr_bypass = Signal(self.shape, reset_less=True)"),
    ("xor-write-regs-addr-shape", REL, "write_regs_addr = [Signal(range(self.depth), reset_less=True) for _ in self.write_ports]", "write_regs_addr = [Signal(self.shape, reset_less=True) for _ in self.write_ports]"),
    ("onehot-read-addr-shape", REL, "read_addr_bypass = [Signal(port.addr.shape(), reset_less=True) for port in self.read_ports]", "read_addr_bypass = [Signal(self.shape, reset_less=True) for port in self.read_ports]"),
    ("xor-feedback-map-broken", REL, "                idx = i + 1 if i >= index else i\n", "                idx = i + 1 if i > index else i\n"),
    ("onehot-feedback-map-broken", REL, "                k = i + 1 if index < i + 1 else i\n", "                k = i + 1 if index < i else i\n"),
    ("ilvt-bank-read-wrong-port", REL, "                    port.addr.eq(self.read_ports[idx].addr),\n                ]\n\n        for index, read_port in enumerate(self.read_ports):", "                    port.addr.eq(self.read_ports[index].addr),\n                ]\n\n        for index, read_port in enumerate(self.read_ports):"),
    ("xor-init-everywhere", REL, "            init = self.init if index == 0 else []\n            read_block = MultiReadMemory(", "            init = self.init\n            read_block = MultiReadMemory("),
    ("ilvt-init-bank1", REL, "            init = self.init if index == 0 else []\n            mem = MultiReadMemory(", "            init = self.init if index == 1 else []\n            mem = MultiReadMemory("),
    ("ilvt-write-addr-bypass-shape", REL, "write_addr_bypass = [Signal(port.addr.shape(), reset_less=True) for port in self.write_ports]\n        write_data_bypass = [Signal(self.shape, reset_less=True) for _ in self.write_ports]\n        write_en_bypass = [Signal(port.en.shape()) for port in self.write_ports]", "write_addr_bypass = [Signal(port.en.shape(), reset_less=True) for port in self.write_ports]\n        write_data_bypass = [Signal(self.shape, reset_less=True) for _ in self.write_ports]\n        write_en_bypass = [Signal(port.en.shape()) for port in self.write_ports]"),
    ("xor-accepts-granularity", REL, """    def write_port(self, *, domain: str = "sync", granularity: Optional[int] = None, src_loc_at: int = 0):
        if granularity is not None:
            raise ValueError("Granularity is not supported.")
        return super().write_port(domain=domain, granularity=granularity, src_loc_at=src_loc_at)

    def elaborate(self, platform):
        m = TModule()

        self._frozen = True

        write_xors""", """    def elaborate(self, platform):
        m = TModule()

        self._frozen = True

        write_xors"""),
    # timing coherence (c23z) and coding (c23w)
    ("xor-inner-write-enable-unregistered", REL, "                m.d.sync += [\n                    physical_write_port.en.eq(write_port.en),\n                    physical_write_port.addr.eq(write_port.addr),\n                ]", "                m.d.comb += physical_write_port.en.eq(write_port.en)\n                m.d.sync += physical_write_port.addr.eq(write_port.addr)"),
    ("xor-second-stage-bypass-takes-fresh-data", REL, "                    write_data_bypass,\n                    port.data,", "                    write_xor,\n                    port.data,"),
    ("xor-bypass-arms-swapped", REL, "                    write_data_bypass,\n                    port.data,", "                    port.data,\n                    write_data_bypass,"),
    ("xor-second-stage-bypass-removed", REL, "                if write_port in self.read_ports[idx].transparent_for:\n                    read_xors[idx] ^= Mux(\n                        (read_addr_bypass == write_regs_addr[index]) & r_write_port.en,\n                        write_xor,\n                        double_stage_bypass,\n                    )\n                else:\n                    read_xors[idx] ^= double_stage_bypass", "                if write_port in self.read_ports[idx].transparent_for:\n                    read_xors[idx] ^= Mux(\n                        (read_addr_bypass == write_regs_addr[index]) & r_write_port.en,\n                        write_xor,\n                        port.data,\n                    )\n                else:\n                    read_xors[idx] ^= port.data"),
    ("xor-transparency-inverted", REL, "                if write_port in self.read_ports[idx].transparent_for:\n                    read_xors[idx] ^= Mux(", "                if write_port not in self.read_ports[idx].transparent_for:\n                    read_xors[idx] ^= Mux("),
    ("xor-read-address-registered", REL, "m.d.comb += [port.addr.eq(self.read_ports[idx].addr), port.en.eq(self.read_ports[idx].en)]", "m.d.sync += [port.addr.eq(self.read_ports[idx].addr), port.en.eq(self.read_ports[idx].en)]"),
    ("xor-hold-register-combinational", REL, "            m.d.sync += sync_data.eq(port.data)\n            m.d.comb += [port.data.eq(Mux(read_en_bypass[index]", "            m.d.comb += sync_data.eq(port.data)\n            m.d.comb += [port.data.eq(Mux(read_en_bypass[index]"),
    ("xor-accumulator-from-one", REL, "read_xors = [Value.cast(0) for _ in self.read_ports]", "read_xors = [Value.cast(1) for _ in self.read_ports]"),
    ("xor-feedback-read-disabled", REL, "m.d.comb += [physical_read_port.en.eq(1), physical_read_port.addr.eq(self.write_ports[idx].addr)]", "m.d.comb += [physical_read_port.en.eq(0), physical_read_port.addr.eq(self.write_ports[idx].addr)]"),
    ("xor-feedback-data-fewer-memories", REL, "            for i in range(len(self.write_ports) - 1):\n                mem_name = f\"memory_{index}_{i}\"\n                mem = m.submodules[mem_name]", "            for i in range(len(self.write_ports) - 2):\n                mem_name = f\"memory_{index}_{i}\"\n                mem = m.submodules[mem_name]"),
    ("ilvt-table-written-a-cycle-late", REL, "            m.d.comb += [\n                write_port.addr.eq(self.write_ports[index].addr),\n                write_port.en.eq(self.write_ports[index].en.any()),", "            m.d.sync += [\n                write_port.addr.eq(self.write_ports[index].addr),\n                write_port.en.eq(self.write_ports[index].en.any()),"),
    ("ilvt-bank-data-registered", REL, "                        m.d.comb += [bank_data.eq(m.submodules[f\"bank_{value}\"].read_ports[index].data)]", "                        m.d.sync += [bank_data.eq(m.submodules[f\"bank_{value}\"].read_ports[index].data)]"),
    ("ilvt-bypass-without-enable", REL, "((write_addr_bypass[idx] == read_addr_bypass) & write_en_bypass[idx], write_data_bypass[idx])", "((write_addr_bypass[idx] == read_addr_bypass), write_data_bypass[idx])"),
    ("ilvt-encoder-for-binary-table", REL, "            if self.memory_type == OneHotCodedILVT:\n                encoder_name", "            if self.memory_type != OneHotCodedILVT:\n                encoder_name"),
    ("ilvt-all-writes-transparent", REL, "                for idx, write_port in enumerate(self.write_ports)\n                if write_port in read_port.transparent_for\n            ]", "                for idx, write_port in enumerate(self.write_ports)\n            ]"),
    ("multiread-transparency-inverted", REL, "[physical_write_port] if physical_write_port and write_port in port.transparent_for else []", "[physical_write_port] if physical_write_port and write_port not in port.transparent_for else []"),
    ("multiread-write-registered", REL, "                m.d.comb += [\n                    physical_write_port.addr.eq(write_port.addr),", "                m.d.sync += [\n                    physical_write_port.addr.eq(write_port.addr),"),
    ("onehot-negation-dropped-in-write", REL, "~(m.submodules[f\"bank_{i}\"].read_ports[idx - 1].data[index - 1])", "(m.submodules[f\"bank_{i}\"].read_ports[idx - 1].data[index - 1])"),
    ("onehot-negation-dropped-in-read", REL, "(~(bypassed_data[index][i][idx - 1]) if i < idx else bypassed_data[index][i + 1][idx])", "((bypassed_data[index][i][idx - 1]) if i < idx else bypassed_data[index][i + 1][idx])"),
    ("onehot-live-test-negated", REL, "Cat(*exclusive_bits[idx]) == bypassed_data[index][idx]", "Cat(*exclusive_bits[idx]) != bypassed_data[index][idx]"),
    ("onehot-feedback-port-off-by-one", REL, "            idx = index + first_feedback_port\n", "            idx = index + first_feedback_port - 1\n"),
    ("onehot-bank-vectors-too-narrow", REL, "                shape=len(self.write_ports) - 1,\n", "                shape=len(self.write_ports) - 2,\n"),
    ("onehot-real-read-ports-unwired", REL, "                m.d.comb += [\n                    bank_read_ports[idx].en.eq(self.read_ports[idx].en),\n                    bank_read_ports[idx].addr.eq(self.read_ports[idx].addr),\n                ]\n", "                pass\n"),
    ("read-port-not-registered", REL, "        memory.read_ports.append(self)\n", "        pass\n"),
    ("read-enable-defaults-to-zero", REL, "        self.en = Signal(init=1)\n", "        self.en = Signal()\n"),
]
