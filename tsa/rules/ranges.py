"""Shared obligations on declared ranges (`Signal(range(n))`, layout fields `("name", range(n))`): a count that can reach
N needs range(N + 1); an index into N entries needs range(N).  Compared as linear forms (range(n + 1) with n renamed or
reordered is accepted, a different bound is not)."""

from __future__ import annotations

from ..logic import lin_equal
from ..pm import pat, pmatch
from ..term import tstr


def signal_range(ctx, rule: str, site: str, construct: str, ctor, want: str, why: str, allow_wider: bool = True):
    m = pmatch("Signal(range(Q_n))", ctor) if ctor is not None else None
    if m is None and ctor is not None and ctor[0] == "call" and ctor[1] == ("n", "Signal") and ctor[2]:
        m2 = pmatch("range(Q_n)", ctor[2][0])
        m = m2
    ok = m is not None and lin_equal(m["n"], pat(want))
    ctx.check(ok, rule, site, construct, found=tstr(ctor) if ctor is not None else "not declared", required=f"Signal(range({want})): {why}")


def layout_field_range(ctx, rule: str, site: str, construct: str, method_ctor, direction: str, field: str, want: str, why: str):
    """method_ctor: Method(i=[...], o=[...]); the field `field` of the `direction` layout is range(want)."""
    kw = dict(method_ctor[3]) if method_ctor is not None and method_ctor[0] == "call" else {}
    lay = kw.get(direction)
    got = None
    if lay is not None and lay[0] == "list":
        for f in lay[1:]:
            if f[0] == "tuple" and len(f) == 3 and f[1] == ("c", field):
                got = f[2]
    m = pmatch("range(Q_n)", got) if got is not None else None
    ok = m is not None and lin_equal(m["n"], pat(want))
    ctx.check(ok, rule, site, construct, found=tstr(got) if got is not None else "field not found", required=f"range({want}): {why}")


def ident_field_range(ctx, rule: str, site: str, construct: str, method_ctor, direction: str, field: str, want: str, why: str):
    """Like layout_field_range, for fields that carry identifiers: `range(want)` or `ArrayLayout(range(want), k)`."""
    kw = dict(method_ctor[3]) if method_ctor is not None and method_ctor[0] == "call" else {}
    lay = kw.get(direction)
    got = None
    if lay is not None and lay[0] == "list":
        for f in lay[1:]:
            if f[0] == "tuple" and len(f) == 3 and f[1] == ("c", field):
                got = f[2]
    m = None
    if got is not None:
        m = pmatch("range(Q_n)", got) or pmatch("ArrayLayout(range(Q_n), Q_k)", got)
    ok = m is not None and lin_equal(m["n"], pat(want))
    ctx.check(ok, rule, site, construct, found=tstr(got) if got is not None else "field not found", required=f"range({want}): {why}")


def port_declarations(ctx, pid: str, comp, cls: str, table) -> int:
    """Declared shapes of the interface signals of a component: table = [(attr, kind, bound, why)], kind in
    'index' (Signal(range(bound))), 'bits' (Signal(bound)), 'index-array' (Signal(ArrayLayout(range(bound), k)))."""
    n = 0
    for attr, kind, bound, why in table:
        ctor = comp.init_attr(attr)
        m = None
        if ctor is not None and ctor[0] == "call" and ctor[1] == ("n", "Signal") and len(ctor[2]) == 1:
            a0 = ctor[2][0]  # keyword arguments (init=, name=) do not change the shape
            if kind == "index":
                m = pmatch("range(Q_n)", a0)
            elif kind == "bits":
                m = {"n": a0}
            else:
                m = pmatch("ArrayLayout(range(Q_n), Q_k)", a0)
        ok = m is not None and lin_equal(m["n"], pat(bound))
        n += 1
        ctx.check(ok, f"{pid}.port-shape", comp.site, f"{cls}.{attr}", found=tstr(ctor) if ctor is not None else "not declared",
                  required={"index": f"Signal(range({bound}))", "bits": f"Signal({bound})", "index-array": f"Signal(ArrayLayout(range({bound}), ..))"}[kind] + ": " + why)
    return n
