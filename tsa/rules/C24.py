"""C24 - ContentAddressableMemory: sibling agreement of the match masks, encoder pairing, guarded effects."""

from .common import *
from . import excl
from ..pm import pmatch, pat, has

REL = "transactron/lib/storage.py"


def check(ctx):
    ctx.use(REL)
    comp = Component(ctx.repo, REL, "ContentAddressableMemory", rule="C24")
    comp.require_modelled("C24")
    ex = one_config(comp, "C24")
    push, write, read, remove = (need_body(ex, n, "C24", comp.site) for n in ("push", "write", "read", "remove"))
    excl.exclusive(ctx, "C24", "CAM", push, write, remove)
    # roles: valids = the register in push.ready
    f = to_formula(push.ready)
    valids = None
    m = pmatch("~Q_v.all()", push.ready)
    if m and m["v"][0] == "obj":
        valids = m["v"]
    ctx.check(valids is not None, "C24.push-ready", push.site, "CAM.push.ready", found=tstr(push.ready), required="push ready iff not all slots are valid (a slot is free)")
    if valids is None:
        return
    # storage size: one address and one data register per slot, one valid bit per slot (an Array subscripted past its end selects
    # its last element, so a missing register silently aliases two slots)
    arrays = []
    for o in ex.objects.values():
        ma = pmatch("Array(Q_l)", o.ctor)
        if ma is not None and ma["l"][0] == "lc" and len(ma["l"][3]) == 1:
            arrays.append((o, ma["l"][3][0][1]))
    vo = ex.obj(valids)
    mv = pmatch("Signal(Q_n, name=Q_x)", vo.ctor) or pmatch("Signal(Q_n)", vo.ctor) if vo is not None else None
    ctx.floor("C24", "storage arrays", len(arrays), 2, comp.site)
    ok_sz = all(it == pat("range(self.entries_number)") for _, it in arrays) and mv is not None and lin_equal(mv["n"], pat("self.entries_number"))
    ctx.check(ok_sz, "C24.storage-size", comp.site, "CAM.storage", found="; ".join(tstr(it) for _, it in arrays) + f"; valids: {tstr(vo.ctor) if vo is not None else '?'}",
              required="address and data arrays hold entries_number registers each and valids has entries_number bits")
    encs = {}
    for s in ex.of(Submodule):
        o = ex.obj(s.value)
        if o is not None and pmatch("MultiPriorityEncoder(self.entries_number, 1)", o.ctor):
            encs[s.value] = s
    ctx.floor("C24", "priority encoders", len(encs), 1, comp.site)

    def enc_input(e):
        ws = writers_of(ex, ("a", e, "input"))
        return ws

    # push: free-slot encoder fed with ~valids; one id used for the three writes
    pw = [h for h in facts_in_body(ex, push, HwAssign)]
    ids = {}
    for h in pw:
        if is_sync(h.domain):
            if h.lhs[0] == "i":
                ids[tstr(h.lhs[1])] = (h.lhs[2], h)
            elif pmatch("Q_v.bit_select(Q_i, 1)", h.lhs):
                mm = pmatch("Q_v.bit_select(Q_i, 1)", h.lhs)
                ids["valid"] = (mm["i"], h)
                ctx.check(mm["v"] == valids and const_pred(1)(h.rhs), "C24.push-sets-valid", h.site, "CAM.push.valid", found=f"{tstr(h.lhs)} <- {tstr(h.rhs)}", required="push marks the chosen slot valid")
    idset = {v[0] for v in ids.values()}
    ctx.check(len(ids) == 3 and len(idset) == 1, "C24.push-one-slot", push.site, "CAM.push.slot", found=", ".join(f"{k}[{tstr(v[0])}]" for k, v in ids.items()), required="address, data and valid bit are written at the same slot id")
    if len(idset) == 1:
        slot = next(iter(idset))
        ws = writers_of(ex, slot)
        src = ws[0].rhs if len(ws) == 1 else slot
        mm = pmatch("Q_e.outputs[0]", src)
        ok = mm is not None and mm["e"] in encs
        if ok:
            iw = enc_input(mm["e"])
            ok = len(iw) == 1 and iw[0].rhs == ("op", "~", valids)
        ctx.check(ok, "C24.push-free-slot", push.site, "CAM.push.free-slot-encoder", found=tstr(src), required="the slot is the first set bit of ~valids (a free slot)")
        # an intermediate signal that carries the slot index holds every index 0..entries-1
        so = ex.obj(slot) if slot[0] == "obj" else None
        if so is not None:
            ms = pmatch("Signal(range(Q_n), name=Q_nm)", so.ctor) or pmatch("Signal(range(Q_n))", so.ctor)
            ctx.check(ms is not None and lin_equal(ms["n"], pat("self.entries_number")), "C24.slot-index-range", so.site, "CAM.push.slot.shape", found=tstr(so.ctor), required="Signal(range(entries_number)): a narrower index aliases the last slot onto slot 0")
        arr = {}
        for k, (i_, h) in ids.items():
            if k != "valid":
                arr[h.rhs] = h.lhs[1]
        addr_arr = arr.get(("a", ("arg", push.bodyid), "addr"))
        data_arr = arr.get(("a", ("arg", push.bodyid), "data"))
        ctx.check(addr_arr is not None and data_arr is not None and addr_arr != data_arr, "C24.push-stores-pair", push.site, "CAM.push.arrays", found=f"addr->{tstr(addr_arr) if addr_arr else None} data->{tstr(data_arr) if data_arr else None}",
                  required="push stores the key in the address array and the value in the data array")
    else:
        addr_arr = data_arr = None
    # the three match masks: same formula, each feeding its own encoder
    masks = {}
    for b, nm in ((write, "write"), (read, "read"), (remove, "remove")):
        cands = [h for h in facts_in_body(ex, b, HwAssign) if h.lhs is not None and h.lhs[0] == "obj" and h.rhs is not None and has("Cat(Q_x)", h.rhs)]
        if len(cands) != 1:
            ctx.bad("C24.match-mask", b.site, f"CAM.{nm}.mask", found=f"{len(cands)} mask definition(s)", required="one match mask")
            continue
        h = cands[0]
        arg_addr = ("a", ("arg", b.bodyid), "addr")
        m2 = pmatch("Cat(Q_l) & Q_v", h.rhs)
        ok = False
        if m2 and m2["v"] == valids and m2["l"][0] == "lc":
            bnd, it, conds = m2["l"][3][0]
            ok = m2["l"][2] == ("op", "==", *sorted([arg_addr, bnd], key=repr)) and it == addr_arr and not conds
        ctx.check(ok, "C24.match-mask", h.site, f"CAM.{nm}.mask", found=tstr(h.rhs), required="mask = (key == every stored address) & valids - identical in write, read and remove")
        masks[nm] = h.lhs
        # own encoder
        fed = [e for e in encs if any(w.rhs == h.lhs and enclosing_body(ex, w.fact) is b for w in enc_input(e))]
        # (a mask may instead be turned into an index by count_trailing_zeros: also "the first matching slot")
        ctz_use = any(pmatch("count_trailing_zeros(Q_m)", d) == {"m": h.lhs} for d in ex.vardefs.values())
        ctx.check(len(fed) == 1 or (not fed and ctz_use), "C24.mask-encoder-pairing", h.site, f"CAM.{nm}.encoder", found=f"feeds {len(fed)} encoder(s)" + (", indexed by count_trailing_zeros" if ctz_use else ""), required="each mask feeds exactly its own first-set-bit finder")
        if len(fed) == 1:
            masks[nm + "_enc"] = fed[0]
    used = [masks.get(n + "_enc") for n in ("write", "read", "remove")]
    ctx.check(len({u for u in used if u is not None}) == len([u for u in used if u is not None]), "C24.mask-encoder-pairing", comp.site, "CAM.encoders.distinct", found=f"{len({u for u in used if u is not None})} distinct encoders", required="write, read and remove use three different encoders")
    # effects guarded by mask.any(), indexed by the own encoder's output
    if "write" in masks and "write_enc" in masks:
        ws = [h for h in facts_in_body(ex, write, HwAssign) if is_sync(h.domain)]
        ok = len(ws) == 1 and ws[0].lhs == ("i", data_arr, ("i", ("a", masks["write_enc"], "outputs"), ("c", 0))) and ws[0].rhs == ("a", ("arg", write.bodyid), "data")
        g = guard_of(ex, ws[0]) if ws else True
        want = f_and(run_f(write), to_formula(("call", ("a", masks["write"], "any"), (), ())))
        ok = ok and equivalent(g, want) is None
        ctx.check(ok, "C24.write-effect", ws[0].site if ws else write.site, "CAM.write.effect", found="; ".join(f"{tstr(h.lhs)} <- {tstr(h.rhs)} if {fstr(guard_of(ex, h))}" for h in ws) or "none",
                  required="write updates the data of the matching slot only when a match exists")
        nf = returned_fields(write).get("not_found")
        ctx.check(nf is not None and equivalent(to_formula(nf), f_not(to_formula(("call", ("a", masks["write"], "any"), (), ())))) is None, "C24.not-found", write.site, "CAM.write.not_found", found=tstr(nf) if nf else "none", required="not_found iff no match")
    if "remove" in masks and "remove_enc" in masks:
        ws = [h for h in facts_in_body(ex, remove, HwAssign) if is_sync(h.domain)]
        mm = pmatch("Q_v.bit_select(Q_i, 1)", ws[0].lhs) if len(ws) == 1 else None
        ok = mm is not None and mm["v"] == valids and mm["i"] == ("i", ("a", masks["remove_enc"], "outputs"), ("c", 0)) and const_pred(0)(ws[0].rhs)
        want = f_and(run_f(remove), to_formula(("call", ("a", masks["remove"], "any"), (), ())))
        ok = ok and equivalent(guard_of(ex, ws[0]), want) is None
        ctx.check(ok, "C24.remove-effect", ws[0].site if ws else remove.site, "CAM.remove.effect", found="; ".join(f"{tstr(h.lhs)} <- {tstr(h.rhs)}" for h in ws) or "none", required="remove clears the valid bit of the matching slot only when a match exists")
    if "read" in masks:
        rf = returned_fields(read)
        # the slot read is the first matching one: the own encoder's first output, or the trailing-zero count of the mask
        d_ = rf.get("data")
        idx_ = d_[2] if d_ is not None and d_[0] == "i" and d_[1] == data_arr else None
        idx_d = (ex.vardef(idx_) or idx_) if idx_ is not None else None
        ok = idx_ is not None and (("read_enc" in masks and idx_ == ("i", ("a", masks["read_enc"], "outputs"), ("c", 0))) or pmatch("count_trailing_zeros(Q_m)", idx_d) == {"m": masks["read"]})
        nf = rf.get("not_found")
        ok = ok and nf is not None and equivalent(to_formula(nf), f_not(to_formula(("call", ("a", masks["read"], "any"), (), ())))) is None
        ctx.check(ok, "C24.read-result", read.site, "CAM.read.result", found=tstr(read.ret)[:200] if read.ret else "none", required="read returns the data of the matching slot and not_found iff no match")
        effs = [h for h in facts_in_body(ex, read, HwAssign) if is_sync(h.domain) or domain_class(h.domain) == RUN_GATED]
        ctx.check(not effs, "C24.read-effect-free", read.site, "CAM.read.effects", found="; ".join(h.site for h in effs) or "none", required="read changes nothing")


MUTANTS = [
    ("push-ready-any", REL, "@def_method(m, self.push, ready=~valids.all())", "@def_method(m, self.push, ready=~valids.any())"),
    ("push-encoder-valids", REL, "m.d.top_comb += encoder_push.input.eq(~valids)", "m.d.top_comb += encoder_push.input.eq(valids)"),
    ("read-mask-ignores-valid", REL, "m.d.top_comb += read_mask.eq(Cat([addr == stored_addr for stored_addr in address_array]) & valids)", "m.d.top_comb += read_mask.eq(Cat([addr == stored_addr for stored_addr in address_array]))"),
    ("read-uses-write-encoder", REL, '"data": data_array[encoder_read.outputs[0]]', '"data": data_array[encoder_write.outputs[0]]'),
    ("remove-unguarded", REL, "            with m.If(rm_mask.any()):\n                m.d.sync += valids.bit_select(encoder_remove.outputs[0], 1).eq(0)", "            m.d.sync += valids.bit_select(encoder_remove.outputs[0], 1).eq(0)"),
    ("write-not-found-inverted", REL, 'return {"not_found": ~write_mask.any()}', 'return {"not_found": write_mask.any()}'),
    ("remove-feeds-read-encoder", REL, "m.d.top_comb += encoder_remove.input.eq(rm_mask)", "m.d.top_comb += encoder_read.input.eq(rm_mask)"),
    ("push-data-other-slot", REL, "m.d.sync += data_array[id].eq(data)", "m.d.sync += data_array[encoder_write.outputs[0]].eq(data)"),
]
