"""C02 - explicitly conflicting transactions and methods never run together."""

from . import core


def check(ctx):
    core.cg_priority_passthrough(ctx, "C02")  # includes add_conflict record
    core.mgr_relation_copy(ctx, "C02")
    core.cg_relation_lifting(ctx, "C02")
    core.cg_transactions_exclusive(ctx, "C02")
    core.cg_symmetric_insertion(ctx, "C02")
    core.cg_implicit_edges(ctx, "C02")
    core.cg_priority_edges(ctx, "C02")


MUTANTS = []
