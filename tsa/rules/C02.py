"""C02 - explicitly conflicting transactions and methods never run together."""

from . import core, core2, core3

M = core.MANAGER


def check(ctx):
    core.cg_priority_passthrough(ctx, "C02")  # includes what add_conflict records
    core.mgr_relation_copy(ctx, "C02")
    core.cg_relation_lifting(ctx, "C02")
    core.cg_transactions_exclusive(ctx, "C02")
    core3.exclusive_with(ctx, "C02")
    core3.ctrl_path_builder(ctx, "C02")  # incl. per-module ids: bodies of different modules are never exclusive
    core.cg_symmetric_insertion(ctx, "C02")
    core2.sched_run_definitions(ctx, "C02", want_equiv=False)
    core2.mgr_scheduler_per_component(ctx, "C02")
    core3.cg_self_pair(ctx, "C02")


MUTANTS = [
    ("add-conflict-records-no-conflict", core.TBASE, "RelationBase(end=end, priority=priority, conflict=True, silence_warning=self.owner != end.owner)", "RelationBase(end=end, priority=priority, conflict=priority != Priority.UNDEFINED, silence_warning=self.owner != end.owner)"),
    ("relation-copy-drops-conflict", M, 'RelationBase(**{**dataclass_asdict(relation), "end": relation.end._body})', 'RelationBase(**{**dataclass_asdict(relation), "end": relation.end._body, "conflict": False})'),
    ("lifting-only-first-caller", M, "            for trans_start in method_map.transactions_for(start):\n                for trans_end in method_map.transactions_for(end):", "            for trans_start in list(method_map.transactions_for(start))[:1]:\n                for trans_end in method_map.transactions_for(end):"),
    ("conflict-flag-ignores-relation", M, "conflict = relation.conflict and not TransactionManager._transactions_exclusive(", "conflict = relation.conflict and TransactionManager._transactions_exclusive("),
    ("exclusive-default-true", M, "            if tm1.ctrl_path.exclusive_with(tm2.ctrl_path):\n                return True\n\n        return False", "            if tm1.ctrl_path.exclusive_with(tm2.ctrl_path):\n                return True\n\n        return len(tms1) > 1"),
    ("exclusive-on-any-prefix", M, "if tm1.ctrl_path.exclusive_with(tm2.ctrl_path):", "if tm1.ctrl_path.is_prefix(tm2.ctrl_path):"),
    ("relations-pruned-by-priority", M, "if relation.end in method_map.methods_and_transactions  # prune relations with uncalled methods", "if relation.end in method_map.methods_and_transactions and relation.priority != Priority.UNDEFINED"),
    ("asymmetric-edge", M, "                cgr[begin].add(end)\n                cgr[end].add(begin)", "                cgr[end].add(begin)"),
    ("edges-only-with-priority", M, "            if conflict:\n                cgr[begin].add(end)", "            if conflict and priority != Priority.UNDEFINED:\n                cgr[begin].add(end)"),
    ("eager-filter-inverted", core.SCHED, "for j in range(k) if ccl[j] in gr[transaction]", "for j in range(k) if ccl[j] not in gr[transaction]"),
    ("one-scheduler-only", M, "*[self.cc_scheduler(method_map, cgr, cc, porder) for cc in ccs]", "*[self.cc_scheduler(method_map, cgr, cc, porder) for cc in ccs[:1]]"),
]
