"""C34 - hardware logs and assertions: name<->level table, gated vs ungated trigger registration, negated
assertions at ERROR level, simulation process order/error path (per-cycle exactness is NOT decided)."""

from .common import *
from ..pm import pmatch, pat, has, find_all
from ..pyfacts import Fn, loops, loop_iters, py_guard
from ..stage import Effect, Jump

HW = "transactron/utils/logging.py"
SIM = "transactron/testing/logging.py"
LEVELS = {"debug": "DEBUG", "info": "INFO", "warning": "WARNING", "error": "ERROR"}


def level_table(ctx):
    n = 0
    for name, lvl in LEVELS.items():
        for prefix, target, has_m in (("top_", "top_log", False), ("", "log", True)):
            fn = Fn(ctx.repo, HW, f"HardwareLogger.{prefix}{name}", "C34")
            calls = [e.call for ex in fn.exs for e in ex.of(Effect) if e.call[0] == "call" and e.call[1] == ("a", ("self",), target)]
            ok = len(calls) >= 1
            if ok:
                c = calls[0]
                args = c[2]
                want_level = ("a", ("n", "logging"), lvl)
                if has_m:
                    ok = len(args) >= 4 and args[0] in (fn.param(1), ("n", "m")) and args[1] == want_level and args[2] == fn.param(2) and args[3] == fn.param(3) and args[4:] == (("star", ("p", fn.fi.qualname, "*", "args")),)
                else:
                    ok = len(args) >= 3 and args[0] == want_level and args[1] == fn.param(1) and args[2] == fn.param(2) and args[3:] == (("star", ("p", fn.fi.qualname, "*", "args")),)
                ok = ok and any(k is None for k, _ in c[3])
            n += 1
            ctx.check(ok, "C34.level-table", fn.site, f"HardwareLogger.{prefix}{name}", found="; ".join(tstr(c)[:140] for c in calls) or "no delegation", required=f"{prefix}{name} -> {target}(logging.{lvl}, trigger, format, *args, **kwargs)")
    ctx.floor("C34", "level wrappers", n, 8, HW)


def log_registration(ctx):
    fn = Fn(ctx.repo, HW, "HardwareLogger.log", "C34")
    ex = fn.exs[0]
    hs = ex.of(HwAssign)
    ok = len(hs) == 1 and hs[0].domain == ("c", "comb") and pmatch("Value.cast(Q_t).any()", hs[0].rhs) is not None and pmatch("Value.cast(Q_t).any()", hs[0].rhs)["t"] == fn.param(3) and not hs[0].guards()
    calls = [e.call for e in ex.of(Effect) if e.call[1] == pat("self.top_log")]
    ok = ok and len(calls) == 1 and calls[0][2][0] == fn.param(2) and calls[0][2][1] == hs[0].lhs and calls[0][2][2] == fn.param(4)
    ctx.check(ok, "C34.log-context-sensitive", fn.site, "HardwareLogger.log", found="; ".join(f"{tstr(h.domain)} += {tstr(h.lhs)}.eq({tstr(h.rhs)})" for h in hs) + " ; " + "; ".join(tstr(c)[:120] for c in calls),
              required="log drives a fresh trigger signal in `comb` of the given module (so it is active only inside the running body / true conditions) and registers that signal with the same level and format")
    tl = Fn(ctx.repo, HW, "HardwareLogger.top_log", "C34")
    ok = False
    detail = ""
    for ex in tl.exs:
        for e in ex.of(Effect):
            if has("LogKey()", e.call) and e.call[1][0] == "a" and e.call[1][2] == "add_dependency":
                rec = ex.vardef(e.call[2][1]) or e.call[2][1]
                detail = tstr(rec)[:200]
                if rec[0] == "call" and rec[1] == ("n", "LogRecord"):
                    kw = dict(rec[3])
                    trig = ex.vardef(kw.get("trigger", ("c", None))) or kw.get("trigger")
                    ok = kw.get("level") == tl.param(1) and pmatch("Value.cast(Q_t).any()", trig) is not None and pmatch("Value.cast(Q_t).any()", trig)["t"] == tl.param(2) and not ex.of(HwAssign) and py_guard(e) is True
    ctx.check(ok, "C34.top-log-registers", tl.site, "HardwareLogger.top_log", found=detail or "no registration", required="top_log registers LogRecord(level=level, trigger=any(trigger), ...) unconditionally and without module context")
    # format chunks: values appended in chunk order
    vals, specs = [], []
    for ex in tl.exs:
        apps = [e for e in ex.of(Effect) if pmatch("Q_l.append(Q_x)", e.call)]
        vals += [e for e in apps if e.call[2][0][0] == "i" and e.call[2][0][2] == ("c", 0)]
        specs += [e for e in apps if is_call_n(e.call[2][0], "LogChunkInfo")]
    ok = bool(vals) and len({e.site for e in specs}) >= 2 and all(len(loops(e)) == 1 for e in vals + specs)
    # a text chunk is recorded as text, a field chunk as (format spec of that field), and its value is collected
    for ex in tl.exs:
        dstr = next(((t, v) for t, v in ex.config if pmatch("isinstance(Q_c, str)", t) is not None), None)
        if dstr is None:
            continue
        ch = pmatch("isinstance(Q_c, str)", dstr[0])["c"]
        sp = [e for e in ex.of(Effect) if pmatch("Q_l.append(Q_x)", e.call) and is_call_n(e.call[2][0], "LogChunkInfo")]
        vs = [e for e in ex.of(Effect) if pmatch("Q_l.append(Q_x)", e.call) and not is_call_n(e.call[2][0], "LogChunkInfo") and loops(e)]
        if dstr[1]:
            okc = len(sp) == 1 and sp[0].call[2][0][2] == (("c", False), ch) and not vs
        else:
            okc = len(sp) == 1 and sp[0].call[2][0][2] == (("c", True), ("i", ch, ("c", 1))) and len(vs) == 1 and vs[0].call[2][0] == ("i", ch, ("c", 0))
        ok = ok and okc
        ctx.check(okc, "C34.format-chunks.kind", sp[0].site if sp else tl.site, f"HardwareLogger.top_log.chunk[str={dstr[1]}]", found="; ".join(tstr(e.call)[:100] for e in sp + vs) or "nothing recorded",
                  required="text chunk -> LogChunkInfo(False, text); field chunk (value, spec) -> LogChunkInfo(True, spec) and the value appended to the fields")
    ctx.check(ok, "C34.format-chunks", tl.site, "HardwareLogger.top_log.chunks", found="value / chunk appends in one loop over the format chunks" if ok else "not found", required="field values are collected in the order of the format chunks that consume them")
    for q, target, neg_arg in (("HardwareLogger.assertion", "error", 2), ("HardwareLogger.top_assertion", "top_error", 1)):
        fa = Fn(ctx.repo, HW, q, "C34")
        calls = [e.call for ex in fa.exs for e in ex.of(Effect) if e.call[1] == ("a", ("self",), target)]
        ok = len(calls) == 1
        if ok:
            a = calls[0][2][neg_arg - 1]
            m = pmatch("~Value.cast(Q_v).any()", a)
            ok = m is not None and m["v"] == fa.param(neg_arg)
        ctx.check(ok, "C34.assertion-negated-error", fa.site, q, found="; ".join(tstr(c)[:120] for c in calls), required=f"a failed assertion is {target}(~any(value), ...): ERROR level, trigger = condition false")
    for q, target in (("assertion", "assertion"), ("top_assertion", "top_assertion")):
        fa = Fn(ctx.repo, HW, q, "C34")
        from ..stage import Helper

        calls = [e.call for ex in fa.exs for e in ex.of(Effect) + ex.of(Helper) if e.call[0] == "call" and pmatch(f"HardwareLogger(Q_n).{target}", e.call[1])]
        ctx.check(len(calls) == 1, "C34.module-level-wrappers", fa.site, q, found="; ".join(tstr(c)[:100] for c in calls), required=f"delegates to HardwareLogger(name).{target}", nontrivial=False)
    gl = Fn(ctx.repo, HW, "get_log_records", "C34")
    rets = gl.facts(Return, lambda r: r.callid is None)
    ok = False
    for ex, r in rets:
        v = r.value
        if v[0] == "lc":
            rec = v[3][0][0]
            conds = v[3][0][2]
            f = f_and(*[to_formula(c) for c in conds])
            lv = A(("op", "<=", gl.param(0), ("a", rec, "level")))
            ok = v[2] == rec and implies(f, lv) is None and has("LogKey()", ex.vardef(v[3][0][1]) or v[3][0][1])
            others = [a for a in atoms_of(f) if a != lv[1]]
            ok = ok and all(is_call_a(a, "search") for a in others)
    ctx.check(ok, "C34.record-filter", gl.site, "get_log_records", found="; ".join(tstr(r.value)[:160] for _, r in rets), required="all registered records with level >= the requested level (and matching the namespace)")
    gt = Fn(ctx.repo, HW, "get_trigger_bit", "C34")
    rets = gt.facts(Return, lambda r: r.callid is None)
    ok = any(pmatch("Cat(Q_g).any()", r.value) is not None and pmatch("Cat(Q_g).any()", r.value)["g"][0] == "lc" and pmatch("Cat(Q_g).any()", r.value)["g"][2] == ("a", pmatch("Cat(Q_g).any()", r.value)["g"][3][0][0], "trigger")
             and pmatch("get_log_records(Q_l, Q_n)", pmatch("Cat(Q_g).any()", r.value)["g"][3][0][1]) == {"l": gt.param(0), "n": gt.param(1)} for _, r in rets)
    ctx.check(ok, "C34.combined-trigger", gt.site, "get_trigger_bit", found="; ".join(tstr(r.value)[:120] for _, r in rets), required="any(trigger of exactly the records selected by get_log_records(level, namespace))")


def is_call_n(t, name):
    return t[0] == "call" and t[1] == ("n", name)


def is_call_a(t, name):
    return t[0] == "call" and t[1][0] == "a" and t[1][2] == name


def sim_process(ctx):
    fn = Fn(ctx.repo, SIM, "make_logging_process", "C34", enter=("handle_logs",))
    level, ns, on_error = fn.param(0), fn.param(1), fn.param(2)
    ex0 = fn.exs[0]
    recs = None
    for vid, d in ex0.vardefs.items():
        if pmatch("tlog.get_log_records(Q_l, Q_n)", d) == {"l": level, "n": ns}:
            # the variable term with this id (its local name is irrelevant)
            cands = {x for ex_ in fn.exs for f_ in ex_.facts for fr in f_.frames for y in fr[1:] if isinstance(y, tuple) for x in subterms(y) if isinstance(x, tuple) and len(x) == 3 and x[0] == "v" and x[2] == vid}
            recs = sorted(cands)[0] if cands else ("v", "records", vid)
    ctx.check(recs is not None, "C34.sim-records", fn.site, "make_logging_process.records", found="get_log_records(level, namespace_regexp)" if recs else "not found", required="the process reports the records selected by the requested level and namespace")
    if recs is None:
        return
    logs = fn.facts(Effect, lambda e: is_call_a(e.call, "log") and len(loops(e)) == 1 and loops(e)[0][1] == recs)
    errs = fn.facts(Effect, lambda e: e.call == ("call", on_error, (), ()) and len(loops(e)) == 1)
    ctx.floor("C34", "report sites", len(logs), 1, fn.site)
    # reach condition of the report: trigger sampled true
    def trig_atoms(f):
        # the sampled trigger: a variable defined as next(<sample iterator>) that guards the report
        return [a for a in atoms_of(f) if a[0] == "v" and any(ex_.vardefs.get(a[2], ("x",))[0] == "call" and ex_.vardefs[a[2]][1] == ("n", "next") for ex_ in fn.exs)]

    r_log = fn.reach(Effect, lambda e: is_call_a(e.call, "log") and len(loops(e)) == 1 and loops(e)[0][1] == recs)
    ta = trig_atoms(r_log)
    ok = len(ta) >= 1 and all(implies(r_log, f_or(*[A(a) for a in ta])) is None for _ in (0,))
    ctx.check(ok, "C34.sim-only-triggered", logs[0][1].site, "handle_logs.report", found=fstr(r_log)[:200], required="a record is reported only in cycles where its own trigger sampled true")
    # consumption order: trigger first, then one value per field
    ok = False
    for ex, e in logs:
        rec = loops(e)[0][0][0]
        fm = [d for d in ex.vardefs.values() if pmatch("Q_r.format(*Q_v)", d) and pmatch("Q_r.format(*Q_v)", d)["r"] == rec]
        if not fm:
            continue
        vals = pmatch("Q_r.format(*Q_v)", fm[0])["v"]
        trig = [a for a in trig_atoms(fn.reach(Effect, lambda x: x is e)) ] or ta
        tv = [t for t in ex.vardefs if ex.vardefs[t][0] == "call" and ex.vardefs[t][1] == ("n", "next")]
        ok = vals[0] == "lc" and vals[3][0][1] == ("a", rec, "fields") and pmatch("next(Q_it)", vals[2]) is not None and bool(tv) and isinstance(vals[3][0][0][1], int) and min(tv) < vals[3][0][0][1]
        lvl_ok = e.call[2][0] == ("a", rec, "level")
        ctx.check(lvl_ok, "C34.sim-level", e.site, "handle_logs.level", found=tstr(e.call[2][0]), required="reported at the record's own level")
    ctx.check(ok, "C34.sim-consume-order", logs[0][1].site, "handle_logs.order", found="trigger = next(it) before values = [next(it) for _ in record.fields]" if ok else "order not established",
              required="per record, in record order: first the trigger, then one sampled value per field; the message is record.format(*values)")
    # error path
    ok = False
    for ex, e in errs:
        rec = loops(e)[0][0][0]
        g = py_guard(e)
        want = A(("op", "<=", pat("logging.ERROR"), ("a", rec, "level")))
        # ... exactly for the reported records: the guard of the report (the sampled trigger) and the level test
        reported = [py_guard(l) for lx, l in logs if lx is ex]
        ok = ok or (loops(e)[0][1] == recs and bool(reported) and equivalent(g, f_and(reported[0], want)) is None)
    # F38: ... and only after every record of the cycle has been reported: the harness' on_error raises, so a call inside the
    # loop over the records drops the records registered after the failing one.  Accepted: the loop only remembers that an error
    # was reported (a flag that starts False and is set exactly when a reported record has level >= ERROR), on_error() follows the
    # loop under that flag.
    in_loop = ok
    ok = False
    after = fn.facts(Effect, lambda e: e.call == ("call", on_error, (), ()) and not loops(e))
    for ex, e in after:
        frs = [fr for fr in e.frames if fr[0] == "py"]
        if len(frs) != 1 or frs[0][1][0] != "loopvar" or frs[0][2] is not True:
            continue
        key = (frs[0][1][1], frs[0][1][2])
        good = True
        n_set = 0
        for cx in fn.exs:
            ld = cx.loopdefs.get(key)
            if ld is None:
                continue
            init, end = ld
            dec = {tstr(t): v for t, v in cx.config}
            reported = [py_guard(l) for l in cx.of(Effect) if is_call_a(l.call, "log") and len(loops(l)) == 1 and loops(l)[0][1] == recs]
            lvl = [v for t, v in cx.config if t[0] == "op" and t[1] == "<=" and t[2] == pat("logging.ERROR")]
            is_err = bool(reported) and bool(lvl) and lvl[-1] is True
            good = good and init == ("c", False) and ((end == ("c", True)) == is_err)
            n_set += 1 if end == ("c", True) else 0
        ok = ok or (good and n_set >= 1)
    found_txt = "; ".join(fstr(py_guard(e)) for _, e in errs) or ("after the loop under a flag" if after else "on_error never called")
    if in_loop and not ok:
        found_txt = "on_error() inside the loop over the records (the records after the failing one are not reported)"
    ctx.check(ok, "C34.sim-error-fails", (errs or after)[0][1].site if (errs or after) else fn.site, "handle_logs.on_error", found=found_txt, required="on_error() exactly when a record with level >= ERROR was reported in the cycle, after all records of the cycle have been reported (a failed assertion ends the simulation with a failure, and its context is not lost)")
    # production order
    fp = Fn(ctx.repo, SIM, "make_logging_process", "C34", enter=("log_process",))
    ok = False
    for ex in fp.exs:
        for f in ex.facts:
            for fr in f.frames:
                if fr[0] == "for":
                    for m in find_all("Q_x.sample(*itertools.chain(*Q_g))", fr[2]):
                        g = m["g"]
                        if g[0] == "lc":
                            r = g[3][0][0]
                            ok = g[2] == ("op", "+", ("tuple", ("a", r, "trigger")), ("a", r, "fields")) and g[3][0][1][0] == "v" and pmatch("tlog.get_log_records(Q_l, Q_n)", ex.vardefs.get(g[3][0][1][2], ("c", None))) is not None
    ctx.check(ok, "C34.sim-sample-order", fp.site, "log_process.sampled", found="(record.trigger,) + record.fields per record" if ok else "different order", required="sampled per record, in record order: trigger, then the fields (the order handle_logs consumes)")
    # exactly the triggered cycles: the report is reached iff the combined trigger and the record's own trigger sampled true
    r_all = fp.reach(Effect, lambda e: is_call_a(e.call, "log") and len(loops(e)) == 2)
    okx = False
    detail = fstr(r_all)[:200]
    for ex in fp.exs:
        for e in ex.of(Effect):
            if not (is_call_a(e.call, "log") and len(loops(e)) == 2):
                continue
            (tup,), it = loops(e)[0]
            ms = pmatch("Q_s.tick().sample(Q_a, Q_b).sample(*Q_rest)", it)
            if ms is None:
                continue
            comb = ms["b"]
            cd = ex.vardef(comb) or comb
            own = [a for a in atoms_of(r_all) if a[0] == "v" and ex.vardefs.get(a[2], ("x",))[0] == "call" and ex.vardefs[a[2]][1] == ("n", "next")]
            its = [d for d in ex.vardefs.values() if pmatch("iter(Q_x)", d) is not None and pmatch("iter(Q_x)", d)["x"] == ("i", tup, ("slice", ("c", 4), ("c", None), ("c", None)))]
            okx = (pmatch("tlog.get_trigger_bit(Q_l, Q_n)", cd) == {"l": level, "n": ns} and len(own) == 1 and bool(its)
                   and equivalent(r_all, f_and(A(("i", tup, ("c", 3))), A(own[0]))) is None)
            detail = f"reported iff {fstr(r_all)[:160]}; second sample = {tstr(cd)[:80]}; record values from {tstr(its[0]) if its else '?'}"
    ctx.check(okx, "C34.sim-exactly-triggered", fp.site, "log_process.report", found=detail,
              required="a record is reported iff the combined trigger (2nd sample, element 3 of the tick tuple) and the record's own trigger sampled true; the per-record values start at element 4")
    calls = [e for ex in fp.exs for e in ex.of(Effect) if is_call_a(e.call, "log") and len(loops(e)) == 2]
    ctx.check(bool(calls), "C34.sim-handle-called", fp.site, "log_process.handle_logs", found=f"{len(calls)} report site(s) reached from the sampling loop", required="sampled values are handed to handle_logs every triggered cycle", nontrivial=False)


def format_rule(ctx):
    fn = Fn(ctx.repo, HW, "LogRecordInfo.format", "C34")
    apps = fn.facts(Effect, lambda e: pmatch("Q_l.append(Q_x)", e.call) is not None and is_call_n(pmatch("Q_l.append(Q_x)", e.call)["x"], "format"))
    ok = len(apps) >= 1 and all(len(loops(e)) == 1 and loops(e)[0][1] == pat("self.format_spec") for _, e in apps)
    ctx.check(ok, "C34.python-format", fn.site, "LogRecordInfo.format", found="; ".join(tstr(e.call)[:100] for _, e in apps) or "no format() call", required="every formatted chunk goes through Python's format(value, spec), chunks in specification order")
    # every chunk of the specification contributes exactly one piece, of the right kind
    for ex in fn.exs:
        dec = {tstr(t): v for t, v in ex.config}
        is_fmt = next((v for t, v in ex.config if t[0] == "a" and t[2] == "is_fmt"), None)
        if is_fmt is None:
            continue
        chunk = next(t[1] for t, v in ex.config if t[0] == "a" and t[2] == "is_fmt")
        rets_ = [r for r in ex.of(Return) if r.callid is None]
        lst = pmatch("''.join(Q_c)", rets_[0].value)["c"] if rets_ and pmatch("''.join(Q_c)", rets_[0].value) else None
        apps_ = [e for e in ex.of(Effect) if pmatch("Q_l.append(Q_x)", e.call) is not None and pmatch("Q_l.append(Q_x)", e.call)["l"] == lst]
        spec = ("a", chunk, "fmt_or_str")
        as_str = next((v for t, v in ex.config if pmatch("Q_s.endswith('s')", t) == {"s": spec}), None)
        ok = len(apps_) == 1
        if ok:
            x = pmatch("Q_l.append(Q_x)", apps_[0].call)["x"]
            if not is_fmt:
                ok = x == spec
            else:
                mf = pmatch("format(Q_v, Q_f)", x)
                ok = mf is not None
                if ok:
                    v = ex.vardef(mf["v"]) or mf["v"]
                    nxt = pmatch("next(Q_it)", v)
                    if as_str:
                        ok = mf["f"] == ("i", spec, ("slice", ("c", None), ("c", -1), ("c", None))) and pmatch("Q_m.decode()", v) is not None
                    else:
                        ok = mf["f"] == spec and nxt is not None and pmatch("iter(Q_a)", ex.vardef(nxt["it"]) or nxt["it"]) is not None
        ctx.check(ok, "C34.python-format.pieces", apps_[0].site if apps_ else fn.site, f"LogRecordInfo.format[is_fmt={is_fmt},str={as_str}]", found="; ".join(tstr(e.call)[:120] for e in apps_) or "nothing appended",
                  required="a text chunk is copied; a field chunk is format(next argument, its spec); an `s` field is the decoded bytes formatted with the spec without the `s`")
        if is_fmt and as_str:
            # little-endian bytes of the value, zero bytes skipped
            bytes_ = [e for e in ex.of(Effect) if pmatch("Q_m.append(Q_b)", e.call) is not None and e not in apps_]
            steps = [v for k, v in ex.loopdefs.items() if k[0] != "while"]
            tests = [v for k, v in ex.loopdefs.items() if k[0] == "while"]
            okb = len(steps) == 1 and len(tests) == 1 and steps[0][1] is not None and pmatch("Q_v >> 8", steps[0][1]) is not None and pmatch("Q_v >> 8", steps[0][1])["v"] == tests[0][0]
            if bytes_:
                b = pmatch("Q_m.append(Q_b)", bytes_[0].call)["b"]
                okb = okb and b in (("op", "&", ("c", 255), tests[0][0]), ("op", "&", tests[0][0], ("c", 255))) if tests else False
            if dec.get(tstr(("op", "&", ("c", 255), tests[0][0])) if tests else "") is True:
                okb = okb and len(bytes_) == 1
            ctx.check(okb, "C34.python-format.string-bytes", bytes_[0].site if bytes_ else fn.site, f"LogRecordInfo.format.bytes[{dec}]"[:120], found="; ".join(tstr(e.call) for e in bytes_) + " ; step " + "; ".join(tstr(s[1]) for s in steps if s[1]),
                      required="an `s` field is unpacked byte by byte: (value & 0xFF) appended when non-zero, value >>= 8 until the value is 0")
    rets = fn.facts(Return, lambda r: r.callid is None)
    ctx.check(any(pmatch("''.join(Q_c)", r.value) is not None for _, r in rets), "C34.python-format", fn.site, "LogRecordInfo.format.join", found="; ".join(tstr(r.value) for _, r in rets), required="the message is the concatenation of the chunks", nontrivial=False)


def formatter_total(ctx):
    """F39: the formatter of the simulation harness produces a line for a record of ANY level (LogLevel is a plain int; records at
    CRITICAL or at a numeric level are accepted).  A subscript of a per-level table raises KeyError for the other levels, and
    logging swallows it: the record is not reported."""
    import ast

    mi = ctx.repo.module(SIM)
    fmts = [f for c in mi.tree.body if isinstance(c, ast.ClassDef) for f in c.body if isinstance(f, ast.FunctionDef) and f.name == "format"
            and any(isinstance(b, ast.Attribute) and b.attr == "Formatter" or isinstance(b, ast.Name) and b.id == "Formatter" for b in c.bases)]
    ctx.floor("C34", "log formatters of the simulation harness", len(fmts), 1, SIM)
    for f in fmts:
        by_level = [n for n in ast.walk(f) if isinstance(n, ast.Subscript) and any(isinstance(x, ast.Attribute) and x.attr in ("levelno", "levelname") for x in ast.walk(n.slice))]
        ctx.check(not by_level, "C34.formatter-total", f"{SIM}:{f.lineno}", "_LogFormatter.format", found=f"{len(by_level)} table lookup(s) subscripted by the record's level",
                  required="no lookup that fails for a level outside the table (use .get with a default): a record of any level is formatted")


def errors_watched(ctx):
    """F40: the records whose ERROR level ends the simulation must not be subject to the *display* filters: with a namespace filter
    (or a level above ERROR) a failed assertion elsewhere would neither be shown nor end the simulation."""
    fn = Fn(ctx.repo, SIM, "make_logging_process", "C34", enter=("handle_logs",))
    level, ns = fn.param(0), fn.param(1)
    only_filtered = False
    watched = []
    for ex in fn.exs[:1]:
        for vid, d in ex.vardefs.items():
            if has("tlog.get_log_records(Q_l, Q_n)", d) or has("tlog.get_log_records(Q_l)", d):
                watched.append(d)
    only_filtered = bool(watched) and all(pmatch("tlog.get_log_records(Q_l, Q_n)", d) == {"l": level, "n": ns} for d in watched)
    ctx.check(not only_filtered, "C34.sim-errors-watched", fn.site, "make_logging_process.records", found="; ".join(tstr(d)[:80] for d in watched) or "no record list",
              required="records with level >= ERROR are watched whatever the requested level / namespace filter (the filter selects what is displayed)")


def check(ctx):
    ctx.use(HW, SIM)
    level_table(ctx)
    log_registration(ctx)
    sim_process(ctx)
    format_rule(ctx)
    formatter_total(ctx)
    errors_watched(ctx)


MUTANTS = [
    ("warning-as-info", HW, "self.log(m, logging.WARNING, trigger, format, *args, src_loc=get_src_loc(src_loc), **kwargs)", "self.log(m, logging.INFO, trigger, format, *args, src_loc=get_src_loc(src_loc), **kwargs)"),
    ("top-error-as-warning", HW, "self.top_log(logging.ERROR, trigger, format, *args, src_loc=get_src_loc(src_loc), **kwargs)", "self.top_log(logging.WARNING, trigger, format, *args, src_loc=get_src_loc(src_loc), **kwargs)"),
    ("log-ungated", HW, "        trigger_signal = Signal()\n        m.d.comb += trigger_signal.eq(Value.cast(trigger).any())\n        self.top_log(level, trigger_signal, format, *args, src_loc=get_src_loc(src_loc), **kwargs)", "        self.top_log(level, trigger, format, *args, src_loc=get_src_loc(src_loc), **kwargs)"),
    ("assertion-not-negated", HW, "self.error(m, ~Value.cast(value).any(), format, *args, src_loc=get_src_loc(src_loc), **kwargs)", "self.error(m, Value.cast(value).any(), format, *args, src_loc=get_src_loc(src_loc), **kwargs)"),
    ("assertion-as-warning", HW, "self.error(m, ~Value.cast(value).any(), format, *args, src_loc=get_src_loc(src_loc), **kwargs)", "self.warning(m, ~Value.cast(value).any(), format, *args, src_loc=get_src_loc(src_loc), **kwargs)"),
    ("filter-strict-level", HW, "if rec.level >= level and re.search(namespace_regexp, rec.logger_name)", "if rec.level > level and re.search(namespace_regexp, rec.logger_name)"),
    ("sim-error-only-critical", SIM, "            if record.level >= logging.ERROR:\n                error = True", "            if record.level > logging.ERROR:\n                error = True"),
    ("sim-error-inside-loop", SIM, "            if record.level >= logging.ERROR:\n                error = True", "            if record.level >= logging.ERROR:\n                on_error()"),
    ("sim-error-flag-last-record", SIM, "            if record.level >= logging.ERROR:\n                error = True", "            error = record.level >= logging.ERROR"),
    ("sim-error-never-raised", SIM, "        if error:\n            on_error()\n", ""),
    ("formatter-partial-table", SIM, "self.loglevel2colour.get(record.levelno, \"{}\")", "self.loglevel2colour[record.levelno]"),
    ("sim-reports-untriggered", SIM, "            if not trigger:\n                continue\n", ""),
    ("sim-values-before-trigger", SIM, "            trigger = next(it)\n            values = [next(it) for _ in record.fields]", "            values = [next(it) for _ in record.fields]\n            trigger = next(it)"),
    ("sim-sample-order", SIM, "((record.trigger,) + record.fields for record in records)", "(record.fields + (record.trigger,) for record in records)"),
    ("trigger-bit-other-level", HW, "return Cat(rec.trigger for rec in get_log_records(level, namespace_regexp)).any()", "return Cat(rec.trigger for rec in get_log_records(logging.ERROR, namespace_regexp)).any()"),
    ("top-log-drops-level", HW, "            level=level,\n            format_spec=format_spec,", "            level=logging.INFO,\n            format_spec=format_spec,"),
]
