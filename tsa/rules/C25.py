"""C25 - PriorityEncoderAllocator never double-allocates (way/index agreement, writer order, effects)."""

from .common import *
from . import excl
from ..pm import pmatch, pat, has

REL = "transactron/lib/allocators.py"


def check(ctx):
    ctx.use(REL)
    comp = Component(ctx.repo, REL, "PriorityEncoderAllocator", rule="C25")
    comp.require_modelled("C25")
    ex = one_config(comp, "C25")
    alloc, free, peek, replace, clear = (need_body(ex, n, "C25", comp.site) for n in ("alloc", "free", "peek", "replace", "clear"))
    excl.exclusive(ctx, "C25", "PriorityQueueAllocator", alloc, free, replace)
    from . import ranges

    for meth, d in (("alloc", "o"), ("free", "i")):
        ranges.ident_field_range(ctx, "C25.ident-range", comp.site, f"PEA.{meth}.ident", comp.init_attr(meth), d, "ident", "self.entries", "an identifier names one of the entries")
    # free mask = what peek returns
    mask = returned_fields(peek).get("mask")
    o = ex.obj(mask) if mask else None
    ok = o is not None and pmatch("Signal(self.entries, init=self.init)", o.ctor) is not None
    ctx.check(ok, "C25.free-mask", peek.site, "PEA.free-mask", found=tstr(o.ctor) if o else "none", required="peek returns the free mask register: one bit per identifier, reset to init")
    if not ok:
        return
    no_effects(ctx, "C25.peek-effect-free", comp, ex, peek)
    enc = None
    for s in ex.of(Submodule):
        oo = ex.obj(s.value)
        if oo is not None and pmatch("MultiPriorityEncoder(self.entries, len(self.alloc))", oo.ctor):
            enc = s.value
    # the encoder the allocator relies on: "the i-th output is the i-th free identifier, valid iff there are i+1 of them"
    from . import c38b as _c38b

    ctx.use(_c38b.ELAB)
    _c38b.priority_tree(ctx)
    ctx.check(enc is not None, "C25.encoder", comp.site, "PEA.encoder", found="MultiPriorityEncoder(entries, ways)" if enc else "not found", required="one encoder output per alloc way over all identifiers")
    if enc is None:
        return
    iw = writers_of(ex, ("a", enc, "input"))
    ctx.check(len(iw) == 1 and iw[0].rhs == mask and iw[0].guard is True, "C25.encoder-input", iw[0].fact.site if iw else comp.site, "PEA.encoder.input", found="; ".join(tstr(w.rhs) for w in iw), required="the encoder sees the free mask")
    i = alloc.binder
    check_ready(ctx, "C25.alloc-ready", comp, ex, alloc, A(("i", ("a", enc, "valids"), i)), "way i ready iff the encoder's i-th output is valid (at least i+1 free identifiers, C38)")
    rf = returned_fields(alloc)
    out_i = ("i", ("a", enc, "outputs"), i)
    ctx.check(rf.get("ident") == out_i, "C25.alloc-returns", alloc.site, "PEA.alloc.ret", found=tstr(rf.get("ident", ("c", None))), required="way i returns the encoder's i-th output")
    aw = [h for h in facts_in_body(ex, alloc, HwAssign) if is_sync(h.domain)]
    mm = pmatch("Q_m.bit_select(Q_i, 1)", aw[0].lhs) if len(aw) == 1 else None
    ctx.check(mm is not None and mm["m"] == mask and mm["i"] == out_i and const_pred(0)(aw[0].rhs), "C25.alloc-clears-bit", aw[0].site if aw else alloc.site, "PEA.alloc.effect",
              found="; ".join(f"{tstr(h.lhs)} <- {tstr(h.rhs)}" for h in aw), required="way i clears exactly the bit of the identifier it returns (same i)")
    fw = [h for h in facts_in_body(ex, free, HwAssign) if is_sync(h.domain)]
    mm = pmatch("Q_m.bit_select(Q_i, 1)", fw[0].lhs) if len(fw) == 1 else None
    ctx.check(mm is not None and mm["m"] == mask and mm["i"] == ("a", ("arg", free.bodyid), "ident") and const_pred(1)(fw[0].rhs), "C25.free-sets-bit", fw[0].site if fw else free.site, "PEA.free.effect",
              found="; ".join(f"{tstr(h.lhs)} <- {tstr(h.rhs)}" for h in fw), required="free sets the bit of its argument")
    rw = [h for h in facts_in_body(ex, replace, HwAssign) if is_sync(h.domain)]
    ctx.check(len(rw) == 1 and rw[0].lhs == mask and rw[0].rhs == ("a", ("arg", replace.bodyid), "mask"), "C25.replace", rw[0].site if rw else replace.site, "PEA.replace.effect", found="; ".join(f"{tstr(h.lhs)} <- {tstr(h.rhs)}" for h in rw), required="replace loads the whole mask")
    # writer order: alloc < free < replace (last writer wins: a freed identifier stays free; replace overrides both)
    if aw and fw and rw:
        ctx.check(aw[0].seq < fw[0].seq < rw[0].seq, "C25.writer-order", comp.site, "PEA.mask.writer-order", found=f"alloc@{aw[0].seq} free@{fw[0].seq} replace@{rw[0].seq}",
                  required="alloc, then free, then replace in emission order (later assignments win in the same cycle)")
    call, all_ = unguarded_call(ex, clear, pat("self.replace"))
    ctx.check(call is not None and dict(call.kwargs).get("mask") == pat("self.init"), "C25.clear", clear.site, "PEA.clear", found="; ".join(f"{tstr(c.callee)}({dict(c.kwargs)})" for c in all_) or "no call", required="clear = replace(mask=init)")
    # the configured initial free mask is kept as given (every bit pattern, also negative ones such as ~0b101, is a mask)
    from ..pyfacts import Fn
    from ..stage import Store

    ini = Fn(ctx.repo, REL, "PriorityEncoderAllocator.__init__", "C25")
    sts = [(ex_, s) for ex_ in ini.exs for s in ex_.of(Store) if s.target == pat("self.init")]
    okm = bool(sts) and all(s.value[0] == "p" and s.value[1] == ini.fi.qualname and s.value[3] == "init" and not [fr for fr in s.frames if fr[0] == "py"] for _, s in sts) and len(ini.exs) == len({id(e) for e, _ in sts})
    ctx.check(okm, "C25.init-mask-kept", sts[0][1].site if sts else ini.site, "PEA.init", found="; ".join(sorted({tstr(s.value) for _, s in sts})) or "not stored", required="self.init is the constructor argument, unchanged, on every path")
    a_decl, f_decl = comp.init_attr("alloc"), comp.init_attr("free")
    ok = a_decl is not None and pmatch("Methods(Q_w, o=Q_o)", a_decl) is not None
    ctx.check(ok, "C25.ways", comp.site, "PEA.alloc.ways", found=tstr(a_decl) if a_decl else "none", required="alloc ways declared as Methods", nontrivial=False)


MUTANTS = [
    ("alloc-ready-first-way", REL, "@def_methods(m, self.alloc, ready=lambda i: encoder.valids[i])", "@def_methods(m, self.alloc, ready=lambda i: encoder.valids[0])"),
    ("alloc-clears-other-way", REL, "m.d.sync += not_used.bit_select(encoder.outputs[i], 1).eq(0)", "m.d.sync += not_used.bit_select(encoder.outputs[0], 1).eq(0)"),
    ("alloc-returns-other", REL, 'return {"ident": encoder.outputs[i]}', 'return {"ident": encoder.outputs[len(self.alloc) - 1 - i]}'),
    ("encoder-input-inverted", REL, "m.d.top_comb += encoder.input.eq(not_used)", "m.d.top_comb += encoder.input.eq(~not_used)"),
    ("free-before-alloc", REL, """        @def_methods(m, self.alloc, ready=lambda i: encoder.valids[i])
        def _(i):
            m.d.sync += not_used.bit_select(encoder.outputs[i], 1).eq(0)
            return {"ident": encoder.outputs[i]}

        @def_methods(m, self.free)
        def _(_, ident):
            m.d.sync += not_used.bit_select(ident, 1).eq(1)
""", """        @def_methods(m, self.free)
        def _(_, ident):
            m.d.sync += not_used.bit_select(ident, 1).eq(1)

        @def_methods(m, self.alloc, ready=lambda i: encoder.valids[i])
        def _(i):
            m.d.sync += not_used.bit_select(encoder.outputs[i], 1).eq(0)
            return {"ident": encoder.outputs[i]}
"""),
    ("peek-inverted", REL, 'return {"mask": not_used}', 'return {"mask": ~not_used}'),
    ("clear-zero", REL, "self.replace(m, mask=self.init)", "self.replace(m, mask=0)"),
    ("encoder-too-few-ways", REL, "MultiPriorityEncoder(self.entries, len(self.alloc))", "MultiPriorityEncoder(self.entries, 1)"),
]
