"""C29 - stream adapters obey the ready/valid protocol (source and sink complete at register-transfer level)."""

from .common import *
from ..pm import pmatch, pat

REL = "transactron/lib/stream.py"


def source(ctx):
    comp = Component(ctx.repo, REL, "StreamSource", rule="C29")
    comp.require_modelled("C29")
    ex = one_config(comp, "C29")
    w = need_body(ex, "write", "C29", comp.site)
    from . import excl

    excl.exclusive(ctx, "C29", "StreamSource", w)
    valid, ready, payload = pat("self.o.valid"), pat("self.o.ready"), pat("self.o.payload")
    check_ready(ctx, "C29.source-write-ready", comp, ex, w, f_or(f_not(A(valid)), A(ready)), "write ready iff the output register is empty or is being accepted this cycle")
    t = decision_table(ex, valid, sync=True)
    W = run_f(w)
    check_table(ctx, "C29.source-valid-next", comp.site, "StreamSource.valid'", t, [
        (W, const_pred(1), "a written item makes valid 1 (also when the previous item is accepted in the same cycle)"),
        (f_and(f_not(W), A(ready)), const_pred(0), "accepted and nothing new written: valid drops"),
        (f_and(f_not(W), f_not(A(ready))), HOLD, "not accepted: valid stays asserted (holds)"),
    ])
    pw = writers_of(ex, payload, "any")
    ok = len(pw) == 1 and enclosing_body(ex, pw[0].fact) is w and is_sync(pw[0].fact.domain) and pw[0].rhs == ("a", ("arg", w.bodyid), "data") and equivalent(pw[0].guard, W) is None
    ctx.check(ok, "C29.source-payload-stable", pw[0].fact.site if pw else w.site, "StreamSource.payload", found="; ".join(f"{tstr(x.fact.domain)} += payload.eq({tstr(x.rhs)}) if {fstr(x.guard)}" for x in pw) or "no driver",
              required="the payload register changes only when write runs (stable while waiting for the consumer)")
    decl = comp.init_attr("write")
    ctx.check(decl is not None, "C29.source-method", comp.site, "StreamSource.write.decl", found=tstr(decl) if decl else "none", required="write method declared", nontrivial=False)


def sink(ctx):
    comp = Component(ctx.repo, REL, "StreamSink", rule="C29")
    comp.require_modelled("C29")
    ex = one_config(comp, "C29")
    r, p = need_body(ex, "read", "C29", comp.site), need_body(ex, "peek", "C29", comp.site)
    from . import excl

    excl.exclusive(ctx, "C29", "StreamSink", r)
    valid, ready, payload = pat("self.i.valid"), pat("self.i.ready"), pat("self.i.payload")
    for b in (r, p):
        check_ready(ctx, f"C29.sink-{b.owner[2]}-ready", comp, ex, b, A(valid), f"{b.owner[2]} ready iff valid")
        ctx.check(returned_fields(b).get("data") == payload, "C29.sink-payload", b.site, f"StreamSink.{b.owner[2]}.ret", found=tstr(b.ret) if b.ret else "none", required="returns the transferred payload")
    sole_writer_in_body(ctx, "C29.sink-ready-pulse", comp, ex, ready, r, "stream ready is asserted only while read runs (run-gated comb): a payload is consumed exactly when read runs", rhs_pred=const_pred(1), construct="StreamSink.i.ready")
    no_effects(ctx, "C29.sink-peek-effect-free", comp, ex, p)
    ctx.check(flag_true(p, "nonexclusive"), "C29.sink-peek-nonexclusive", p.site, "StreamSink.peek.nonexclusive", found=str(sorted(p.kwargs)), required="nonexclusive", nontrivial=False)


def wrapper(ctx):
    comp = Component(ctx.repo, REL, "StreamModuleWrapper", rule="C29")
    comp.require_modelled("C29")
    ex = one_config(comp, "C29")
    src = snk = None
    for s in ex.of(Submodule):
        o = ex.obj(s.value)
        if o is not None and pmatch("StreamSource(Q_s)", o.ctor):
            src = (s.value, pmatch("StreamSource(Q_s)", o.ctor)["s"])
        if o is not None and pmatch("StreamSink(Q_s)", o.ctor):
            snk = (s.value, pmatch("StreamSink(Q_s)", o.ctor)["s"])
    ok = src is not None and snk is not None and any(s.value == pat("self.module") for s in ex.of(Submodule))
    ctx.check(ok, "C29.wrapper-parts", comp.site, "StreamModuleWrapper.submodules", found=f"source={'yes' if src else 'no'} sink={'yes' if snk else 'no'}", required="wrapped module, a StreamSource and a StreamSink are submodules")
    if not ok:
        return
    ctx.check(tstr(src[1]).endswith("module.i.payload.shape()") and tstr(snk[1]).endswith("module.o.payload.shape()"), "C29.wrapper-shapes", comp.site, "StreamModuleWrapper.shapes", found=f"{tstr(src[1])}; {tstr(snk[1])}",
              required="source carries the module's input payload shape, sink its output payload shape")
    from ..stage import Effect

    conns = [e.call for e in ex.of(Effect) if pmatch("wiring.connect(Q_m, Q_a, Q_b)", e.call)]
    pairs = {frozenset((tstr(c[2][1]), tstr(c[2][2]))) for c in conns}
    want = {frozenset((tstr(("a", src[0], "o")), "self.module.i")), frozenset((tstr(("a", snk[0], "i")), "self.module.o"))}
    ctx.check(pairs == want, "C29.wrapper-connections", comp.site, "StreamModuleWrapper.connect", found="; ".join(tstr(c) for c in conns), required="source.o -> module.i and module.o -> sink.i")
    prov = {(tstr(r.subject), tstr(r.args[0])) for r in ex.of(Relation) if r.kind == "provide"}
    ctx.check(prov == {("self.write", tstr(("a", src[0], "write"))), ("self.read", tstr(("a", snk[0], "read")))}, "C29.wrapper-methods", comp.site, "StreamModuleWrapper.provide", found=str(sorted(prov)), required="write provided by source.write, read by sink.read")


def wrapper_order(ctx, pid="C29"):
    """StreamSource.write is ready iff `~valid | ready`; StreamSink drives `ready` from read.run.  The wrapped module may
    pass ready through combinationally (lib.stream allows it), so write's readiness may depend on read running: the
    wrapper has to tell the scheduler (read before write), as Pipe does - otherwise conflicting reader and writer
    transactions with the writer ordered first form a combinational loop through the grants (F9)."""
    comp = Component(ctx.repo, REL, "StreamModuleWrapper", rule=pid)
    ex = comp.configs[0]
    objs = {tstr(o.ctor).split("(")[0]: ("obj", oid) for oid, o in ex.objects.items() if o.ctor[0] == "call"}
    src_o, snk_o = objs.get("StreamSource"), objs.get("StreamSink")
    rels = [r for r in ex.of(Relation) if r.kind == "schedule_before"]
    ok = src_o is not None and snk_o is not None and any(r.subject == ("a", snk_o, "read") and r.args == (("a", src_o, "write"),) for r in rels)
    ctx.check(ok, f"{pid}.wrapper-order", comp.site, "StreamModuleWrapper.order", found="; ".join(f"{tstr(r.subject)}.schedule_before({', '.join(tstr(a) for a in r.args)})" for r in rels) or "no ordering declared",
              required="sink.read.schedule_before(source.write): write's readiness may depend on read.run through the wrapped module")


def check(ctx):
    ctx.use(REL)
    source(ctx)
    sink(ctx)
    wrapper(ctx)
    wrapper_order(ctx)


MUTANTS = [
    ("source-ready-only-empty", REL, "@def_method(m, self.write, ready=(~self.o.valid | self.o.ready))", "@def_method(m, self.write, ready=(~self.o.valid & self.o.ready))"),
    ("source-valid-drops-on-write", REL, "        with m.If(self.o.ready & ~self.write.run):", "        with m.If(self.o.ready):"),
    ("source-valid-drops-unaccepted", REL, "        with m.If(self.o.ready & ~self.write.run):", "        with m.If(~self.write.run):"),
    ("source-clear-before-write", REL, """        @def_method(m, self.write, ready=(~self.o.valid | self.o.ready))
        def _(data):
            m.d.sync += self.o.payload.eq(data)
            m.d.sync += self.o.valid.eq(1)

        with m.If(self.o.ready & ~self.write.run):
            # Clear valid when data is accepted and we don't have new data this cycle
            m.d.sync += self.o.valid.eq(0)
""", """        @def_method(m, self.write, ready=(~self.o.valid | self.o.ready))
        def _(data):
            m.d.sync += self.o.payload.eq(data)
            m.d.sync += self.o.valid.eq(1)

        with m.If(self.o.ready):
            # Clear valid when data is accepted
            m.d.sync += self.o.valid.eq(0)
"""),
    ("source-payload-always", REL, "            m.d.sync += self.o.payload.eq(data)\n            m.d.sync += self.o.valid.eq(1)", "            m.d.top_comb += self.o.payload.eq(data)\n            m.d.sync += self.o.valid.eq(1)"),
    ("sink-ready-ungated", REL, "            m.d.comb += self.i.ready.eq(1)\n", "            m.d.av_comb += self.i.ready.eq(1)\n"),
    ("sink-peek-consumes", REL, '        def _():\n            return {"data": self.i.payload}\n\n        @def_method(m, self.read, ready=self.i.valid)', '        def _():\n            m.d.comb += self.i.ready.eq(1)\n            return {"data": self.i.payload}\n\n        @def_method(m, self.read, ready=self.i.valid)'),
    ("sink-read-always-ready", REL, "@def_method(m, self.read, ready=self.i.valid)", "@def_method(m, self.read)"),
    ("wrapper-read-from-source", REL, "        self.read.provide(sink.read)", "        self.read.provide(sink.peek)"),
]
