"""C18 - method transformers and connectors: the call structure of each transformer (behaviour over readiness
histories is delegated to C03/C04/C17)."""

from .common import *
from ..pm import pmatch, pat, has
from ..stage import Effect

TR = "transactron/lib/transformers.py"
CN = "transactron/lib/connectors.py"


def _inner_guards(ex, f, body):
    """Dynamic guards between `body`'s frame and the fact."""
    idx = [k for k, fr in enumerate(f.frames) if fr[0] == "body" and fr[1] == body.bodyid]
    rest = f.frames[idx[0] + 1:] if idx else f.frames
    out = [fr for fr in rest if fr[0] in ("if", "elif", "else", "case", "default", "state", "branch", "avoid", "body", "cond")]
    if isinstance(f, MethodCall) and f.enable is not None:
        out.append(("if", f.enable, "enable_call"))  # enable_call=... is lowered to a call under m.If
    return out


def connect_trans(ctx):
    comp = Component(ctx.repo, CN, "ConnectTrans", rule="C18")
    comp.require_modelled("C18")
    ex = one_config(comp, "C18")
    bs = [b for b in ex.of(BodyDef) if b.kind == "transaction"]
    ctx.check(len(bs) == 1, "C18.connecttrans-one-transaction", comp.site, "ConnectTrans.transaction", found=f"{len(bs)} transaction(s)", required="one transaction calls both methods (data moves exactly when both can run)")
    if len(bs) != 1:
        return
    t = bs[0]
    calls = calls_in_body(ex, t)
    by = {c.callee: c for c in calls}
    c1, c2 = by.get(pat("self.method1")), by.get(pat("self.method2"))
    ok = c1 is not None and c2 is not None and len(calls) == 2 and not _inner_guards(ex, c1, t) and not _inner_guards(ex, c2, t) and c1.enable is None and c2.enable is None
    ctx.check(ok, "C18.connecttrans-calls", t.site, "ConnectTrans.calls", found="; ".join(f"{tstr(c.callee)}({', '.join(tstr(a) for a in c.args)})" for c in calls), required="both methods called unconditionally in the one transaction")
    if not ok:
        return
    for ca, cb, na, nb in ((c1, c2, "method1", "method2"), (c2, c1, "method2", "method1")):
        arg = ca.args[0] if ca.args else None
        ws = writers_of(ex, arg) if arg is not None else []
        okd = len(ws) == 1 and ws[0].rhs == ("ret", cb.callid) and domain_class(ws[0].fact.domain) in (TOP, AV)
        ctx.check(okd, "C18.connecttrans-cross-data", ws[0].fact.site if ws else t.site, f"ConnectTrans.{na}.argument", found="; ".join(f"{tstr(w.fact.domain)} += {tstr(w.fact.lhs)}.eq({tstr(w.rhs)})" for w in ws) or tstr(arg) if arg else "none",
                  required=f"the argument of {na} is the result of {nb}")
    cr = Component(ctx.repo, CN, "ConnectTrans", func="create", rule="C18")
    pv = [r for ex2 in cr.configs for r in ex2.of(Relation) if r.kind == "provide"]
    got = {(tstr(r.subject).split(".")[-1], tstr(r.args[0])) for r in pv}
    ctx.check(got == {("method1", "method1"), ("method2", "method2")}, "C18.connecttrans-create", cr.site, "ConnectTrans.create", found=str(sorted(got)), required="create provides method1/method2 with the given methods")


def crossbar(ctx):
    comp = Component(ctx.repo, CN, "CrossbarConnectTrans", rule="C18")
    comp.require_modelled("C18")
    ex = comp.configs[0]
    subs = [s for s in ex.of(Submodule)]
    ok = False
    detail = ""
    if len(comp.configs) != 1 or any(fr[0] == "py" for s in subs for fr in s.frames):
        ctx.bad("C18.crossbar-all-pairs", comp.site, "CrossbarConnectTrans.pairs", found="connections created under a python-level condition", required="a ConnectTrans for every (methods1[i], methods2[j]) pair, unconditionally")
        return
    for s in subs:
        m = pmatch("ConnectTrans.create(Q_a, Q_b, src_loc=Q_s)", s.value)
        fl = [fr for fr in s.frames if fr[0] == "for"]
        detail = tstr(s.value) + " in " + " / ".join(tstr(fr[2]) for fr in fl)
        if m and len(fl) == 2:
            b1, b2 = fl[0][1][0], fl[1][1][0]
            ok = (m["a"] == ("i", pat("self.methods1"), b1) and m["b"] == ("i", pat("self.methods2"), b2)
                  and pmatch("enumerate(self.methods1)", fl[0][2]) is not None and pmatch("enumerate(self.methods2)", fl[1][2]) is not None
                  and has_both(s.name, b1, b2))
    ctx.check(ok, "C18.crossbar-all-pairs", subs[0].site if subs else comp.site, "CrossbarConnectTrans.pairs", found=detail or "no submodule", required="a ConnectTrans for every (methods1[i], methods2[j]) pair, each with its own submodule name")


def has_both(name, b1, b2):
    return any(s == b1 for s in subterms(name)) and any(s == b2 for s in subterms(name))


def _creates_provide(ctx, cls, targets_attr: str, plural: bool):
    cr = Component(ctx.repo, TR, cls, func="create", rule="C18")
    pv = [(ex2, r) for ex2 in cr.configs for r in ex2.of(Relation) if r.kind == "provide"]
    ok = False
    for ex2, r in pv:
        subj = ex2.vardef(r.subject) or r.subject
        if plural:
            fl = [fr for fr in r.frames if fr[0] == "for"]
            src = r.args[0][1] if r.args[0][0] == "i" else None
            plain_src = src is not None and (src[0] == "p" or (pmatch("list(Q_p)", src) is not None and pmatch("list(Q_p)", src)["p"][0] == "p"))
            ok = ok or (len(fl) == 1 and r.subject[0] == "i" and has(f"Q_t.{targets_attr}", r.subject) and plain_src and r.subject[2] == r.args[0][2])
        else:
            ok = ok or (has(f"Q_t.{targets_attr}", r.subject) and r.args[0][0] == "p")
    ctx.check(ok, "C18.create-provides", cr.site, f"{cls}.create", found="; ".join(f"{tstr(r.subject)}.provide({tstr(r.args[0])})" for _, r in pv) or "none",
              required=f"create provides {targets_attr} with the given method(s)" + (" (k-th with k-th)" if plural else ""))


def method_map(ctx):
    comp = Component(ctx.repo, TR, "MethodMap", rule="C18")
    comp.require_modelled("C18")
    ex = one_config(comp, "C18")
    b = need_body(ex, "method", "C18", comp.site)
    calls = calls_in_body(ex, b)
    by = {tstr(c.callee): c for c in calls}
    ci, ct, co = by.get("self.i_fun"), by.get("self.target"), by.get("self.o_fun")
    ok = (ci is not None and ct is not None and co is not None and len(calls) == 3 and ci.args == (("arg", b.bodyid),) and ct.args == (("ret", ci.callid),)
          and co.args == (("ret", ct.callid),) and b.ret == ("ret", co.callid) and not any(_inner_guards(ex, c, b) for c in calls))
    ctx.check(ok, "C18.methodmap-composition", b.site, "MethodMap.method", found=" -> ".join(f"{tstr(c.callee)}({', '.join(tstr(a) for a in c.args)})" for c in calls) + f" ; returns {tstr(b.ret) if b.ret else None}",
              required="returns o_fun(target(i_fun(arg))), target called unconditionally")
    _creates_provide(ctx, "MethodMap", "target", False)


def method_filter(ctx):
    comp = Component(ctx.repo, TR, "MethodFilter", rule="C18")
    comp.require_modelled("C18")
    ctx.floor("C18", "MethodFilter configurations", len(comp.configs), 2, comp.site)
    for ex in comp.configs:
        cn = cfg_name(ex)
        use_cond = bool([v for t, v in ex.config if tstr(t) == "self.use_condition"][0])
        b = need_body(ex, "method", "C18", comp.site)
        ret = b.ret
        ws = writers_of(ex, ret) if ret is not None else []
        dflt = [w for w in ws if enclosing_body(ex, w.fact) is None]
        calls = calls_in_body(ex, b)
        cc = [c for c in calls if c.callee == pat("self.condition")]
        tc = [c for c in calls if c.callee == pat("self.target")]
        ok = len(cc) == 1 and len(tc) == 1 and cc[0].args == (("arg", b.bodyid),) and tc[0].args == (("arg", b.bodyid),)
        ctx.check(ok, "C18.filter-calls", b.site, f"MethodFilter.calls[{cn}]", found="; ".join(tstr(c.callee) for c in calls), required="condition and target each applied once to the argument")
        if not ok:
            continue
        condv = ("ret", cc[0].callid)
        g = _inner_guards(ex, tc[0], b)
        over = [w for w in ws if enclosing_body(ex, w.fact) is not None and w.rhs == ("ret", tc[0].callid)]
        same_guard = len(over) == 1 and _inner_guards(ex, over[0].fact, b) == g
        # value of the result by last-writer decision table: the target's result where it is taken, the default everywhere else
        # (an unconditional default followed by an override and an If/Else pair are both accepted)
        if len(over) == 1:
            G = over[0].guard
            t = decision_table(ex, ret, sync=False)
            check_table(ctx, "C18.filter-default", comp.site, f"MethodFilter.ret[{cn}]", t, [
                (G, lambda r, c=tc[0].callid: r == ("ret", c), "where the target is called its result is returned"),
                (f_and(run_f(b), f_not(G)), term_pred(pat("self.default")), "whenever the method runs without calling the target the configured default is returned"),
            ])
        else:
            ctx.bad("C18.filter-default", comp.site, f"MethodFilter.ret[{cn}]", found=f"{len(over)} assignments of the target's result", required="the target's result is assigned once")
        if use_cond:
            # cond signal <- condition(m, arg); condition(nonblocking=True) with the single branch(cond)
            okg = len(g) == 2 and g[0][0] == "cond" and dict(g[0][2]).get("nonblocking") == ("c", True) and g[1][0] == "branch"
            if okg:
                csig = g[1][3]
                cw = writers_of(ex, csig)
                # the branch condition is a one-bit signal: it has to receive the TRUTH VALUE of the condition (non-zero is
                # true, as with m.If in the other mode) - assigning the raw value keeps only its lowest bit (F12)
                def truth_of(t):
                    for p_ in ("Q_x.bool()", "Q_x.any()", "Q_x != 0", "0 != Q_x"):
                        mt = pmatch(p_, t)
                        if mt is not None:
                            x = mt["x"]
                            mc = pmatch("Value.cast(Q_y)", x)
                            return (mc["y"] if mc is not None else x) == condv
                    return False

                okg = len(cw) == 1 and truth_of(cw[0].rhs) and g[1][2] == 0
            ctx.check(okg and same_guard, "C18.filter-conditional-call", tc[0].site, f"MethodFilter.target-call[{cn}]", found=" / ".join(fr[0] for fr in g),
                      required="with use_condition: target called and its result taken in a condition(nonblocking=True) branch on the condition (the method does not block on the target)")
            ctx.check(b.kwargs.get("single_caller") == pat("self.use_condition"), "C18.filter-single-caller", b.site, f"MethodFilter.single_caller[{cn}]", found=str({k: tstr(v) for k, v in b.kwargs.items()}), required="single_caller tied to use_condition")
        else:
            okg = len(g) == 1 and g[0][0] == "if" and g[0][1] == condv
            ctx.check(okg and same_guard, "C18.filter-conditional-call", tc[0].site, f"MethodFilter.target-call[{cn}]", found=" / ".join(f"{fr[0]}({tstr(fr[1])})" for fr in g),
                      required="target called, and its result taken, only under If(condition(arg))")
    _creates_provide(ctx, "MethodFilter", "target", False)


def method_product(ctx):
    comp = Component(ctx.repo, TR, "MethodProduct", rule="C18")
    comp.require_modelled("C18")
    ex = one_config(comp, "C18")
    b = need_body(ex, "method", "C18", comp.site)
    calls = calls_in_body(ex, b)
    tc = [c for c in calls if c.callee[0] == "b"]
    ok = len(tc) == 1 and tc[0].callee[2] == pat("self.targets") and tc[0].args == (("arg", b.bodyid),) and not _inner_guards(ex, tc[0], b) and tc[0].enable is None
    ctx.check(ok, "C18.product-all-targets", b.site, "MethodProduct.calls", found="; ".join(f"{tstr(c.callee)} over {[tstr(fr[2]) for fr in c.frames if fr[0] == 'for']}" for c in calls),
              required="every target is called unconditionally with the argument")
    if ok:
        app = [e for e in facts_in_body(ex, b, Effect) if pmatch("Q_l.append(Q_x)", e.call) and pmatch("Q_l.append(Q_x)", e.call)["x"] == ("ret", tc[0].callid)]
        cmb = [c for c in calls if has("self.combiner", c.callee)]
        okc = len(app) == 1 and len(cmb) == 1 and cmb[0].args == (pmatch("Q_l.append(Q_x)", app[0].call)["l"],) and b.ret == ("ret", cmb[0].callid)
        if not okc and len(cmb) == 1 and len(cmb[0].args) == 1 and cmb[0].args[0][0] in ("lc", "obj"):
            # the results collected by a comprehension (also what the extractor makes of `r = []; for t in ..: r.append(t(m, arg))`)
            lc = cmb[0].args[0]
            if lc[0] == "obj" and ex.obj(lc) is not None:
                lc = ex.obj(lc).ctor
            okc = (lc[0] == "lc" and lc[1] == "list" and lc[2] == ("ret", tc[0].callid) and len(lc[3]) == 1 and not lc[3][0][2]
                   and lc[3][0][1] == pat("self.targets") and b.ret == ("ret", cmb[0].callid))
        ctx.check(okc, "C18.product-combines", b.site, "MethodProduct.result", found=tstr(b.ret) if b.ret else "none", required="the combiner is applied to all collected results")
    _creates_provide(ctx, "MethodProduct", "targets", True)


def method_try_product(ctx):
    comp = Component(ctx.repo, TR, "MethodTryProduct", rule="C18")
    comp.require_modelled("C18")
    ex = one_config(comp, "C18")
    b = need_body(ex, "method", "C18", comp.site)
    nested = [x for x in ex.of(BodyDef) if x.kind == "transaction" and any(fr[0] == "body" and fr[1] == b.bodyid for fr in x.frames)]
    ok = len(nested) == 1 and any(fr[0] == "for" and fr[2] == pat("self.targets") for fr in nested[0].frames) and to_formula(nested[0].ready) is True
    ctx.check(ok, "C18.tryproduct-nested-transactions", b.site, "MethodTryProduct.transactions", found=f"{len(nested)} nested transaction(s)", required="one always-ready nested transaction per target (a target that is not ready just does not run)")
    if not ok:
        return
    t = nested[0]
    tb = [fr for fr in t.frames if fr[0] == "for"][0][1][0]
    tc = calls_in_body(ex, t)
    okc = len(tc) == 1 and tc[0].callee == tb and tc[0].args == (("arg", b.bodyid),)
    ctx.check(okc, "C18.tryproduct-calls", t.site, "MethodTryProduct.call", found="; ".join(tstr(c.callee) for c in tc), required="each nested transaction calls its own target with the argument")
    flags = [h for h in facts_in_body(ex, t, HwAssign) if const_pred(1)(h.rhs)]
    okf = len(flags) == 1 and domain_class(flags[0].domain) == RUN_GATED and not is_sync(flags[0].domain) and flags[0].lhs[0] == "obj"  # combinational: reported in the cycle of the call
    ctx.check(okf, "C18.tryproduct-success-flag", flags[0].site if flags else t.site, "MethodTryProduct.success", found="; ".join(f"{tstr(h.domain)} += {tstr(h.lhs)}.eq(1)" for h in flags),
              required="the success flag is raised in a run-gated domain inside the target's transaction (1 iff that target ran)")
    if okc and okf:
        app = [e for e in facts_in_body(ex, t, Effect) if pmatch("Q_l.append((Q_s, Q_r))", e.call)]
        okp = len(app) == 1 and pmatch("Q_l.append((Q_s, Q_r))", app[0].call)["s"] == flags[0].lhs and pmatch("Q_l.append((Q_s, Q_r))", app[0].call)["r"] == ("ret", tc[0].callid)
        ctx.check(okp, "C18.tryproduct-pairing", t.site, "MethodTryProduct.results", found="; ".join(tstr(e.call) for e in app), required="flag and result of the same target are paired")
    _creates_provide(ctx, "MethodTryProduct", "targets", True)


def nonexclusive_wrapper(ctx):
    comp = Component(ctx.repo, TR, "NonexclusiveWrapper", rule="C18")
    ex = one_config(comp, "C18")
    b = need_body(ex, "method", "C18", comp.site)
    calls = calls_in_body(ex, b)
    ok = flag_true(b, "nonexclusive") and len(calls) == 1 and calls[0].callee == pat("self.target") and calls[0].args == (("arg", b.bodyid),) and b.ret == ("ret", calls[0].callid) and not _inner_guards(ex, calls[0], b)
    ctx.check(ok, "C18.nonexclusive-wrapper", b.site, "NonexclusiveWrapper.method", found=f"flags {sorted(b.kwargs)}; calls {[tstr(c.callee) for c in calls]}", required="nonexclusive method forwarding argument and result to the target")
    _creates_provide(ctx, "NonexclusiveWrapper", "target", False)


def collector(ctx):
    comp = Component(ctx.repo, TR, "Collector", rule="C18")
    ex = one_config(comp, "C18")
    fw = None
    for s in ex.of(Submodule):
        o = ex.obj(s.value)
        if o is not None and pmatch("Forwarder(self.method.layout_out, src_loc=Q_s)", o.ctor):
            fw = s.value
    ok = fw is not None
    if ok:
        ok = any(pmatch("CrossbarConnectTrans.create(self.targets, Q_w, src_loc=Q_s)", s.value) is not None and pmatch("CrossbarConnectTrans.create(self.targets, Q_w, src_loc=Q_s)", s.value)["w"] == ("a", fw, "write") for s in ex.of(Submodule))
        ok = ok and any(r.kind == "provide" and r.subject == pat("self.method") and r.args == (("a", fw, "read"),) for r in ex.of(Relation))
    ctx.check(ok, "C18.collector", comp.site, "Collector.structure", found="; ".join(tstr(s.value)[:80] for s in ex.of(Submodule)), required="all targets -> crossbar -> forwarder.write; method provided by forwarder.read")
    _creates_provide(ctx, "Collector", "targets", True)


def create_forwards_options(ctx):
    """Every `create` helper builds its transformer with the options it was given: a parameter of `create` that the constructor
    also has (same name) reaches the constructor call as that argument.  (A dropped keyword leaves the constructor's default in
    force: MethodFilter.create(..., use_condition=True) would silently build the blocking m.If variant.)"""
    import ast

    mi = ctx.repo.module(TR)
    n = 0
    for cls in [c for c in mi.tree.body if isinstance(c, ast.ClassDef)]:
        fns = {f.name: f for f in cls.body if isinstance(f, ast.FunctionDef)}
        cr, init = fns.get("create"), fns.get("__init__")
        if cr is None or init is None:
            continue
        a = init.args
        init_params = [x.arg for x in a.posonlyargs + a.args][1:] + [x.arg for x in a.kwonlyargs]
        c = cr.args
        cr_params = [x.arg for x in c.posonlyargs + c.args + c.kwonlyargs if x.arg not in ("cls", "self")]
        shared = [x for x in cr_params if x in init_params and x != "src_loc"]  # the source location is diagnostic only
        calls = [k for k in ast.walk(cr) if isinstance(k, ast.Call) and isinstance(k.func, ast.Name) and k.func.id in (cls.name, "cls")]
        if not calls:
            continue
        n += 1
        call = calls[0]
        passed = {k.arg for k in call.keywords if k.arg is not None and any(isinstance(x, ast.Name) and x.id == k.arg for x in ast.walk(k.value))}
        pos = [x.arg for x in a.posonlyargs + a.args][1:]
        for idx, arg in enumerate(call.args):
            if isinstance(arg, ast.Name) and idx < len(pos) and pos[idx] == arg.id:
                passed.add(arg.id)
        missing = [x for x in shared if x not in passed]
        ctx.check(not missing, "C18.create-forwards-options", f"{TR}:{cr.lineno}", f"{cls.name}.create", found=f"not handed to the constructor: {missing}" if missing else f"all of {shared}",
                  required="every option of create() that the constructor has is passed on under its name")
    ctx.floor("C18", "create helpers with a constructor call", n, 4, TR)


def check(ctx):
    ctx.use(TR, CN)
    create_forwards_options(ctx)
    connect_trans(ctx)
    crossbar(ctx)
    method_map(ctx)
    method_filter(ctx)
    method_product(ctx)
    method_try_product(ctx)
    nonexclusive_wrapper(ctx)
    collector(ctx)
    from . import c18x

    c18x.filter_default_kept(ctx)
    c18x.crossbar_create_provides(ctx)
    c18x.product_default_combiner(ctx)


MUTANTS = [
    ("connecttrans-same-direction", CN, "m.d.top_comb += data2.eq(self.method2(m, data1))", "m.d.top_comb += data2.eq(self.method2(m, data2))"),
    ("crossbar-diagonal-only", CN, '            for j, method2 in enumerate(self.methods2):\n                m.submodules[f"connect_{i}_{j}"] = ConnectTrans.create(method1, method2, src_loc=self.src_loc)', '            for j, method2 in enumerate(self.methods2):\n                if i == j:\n                    m.submodules[f"connect_{i}_{j}"] = ConnectTrans.create(method1, method2, src_loc=self.src_loc)'),
    ("methodmap-skips-ofun", TR, "return self.o_fun(m, self.target(m, self.i_fun(m, arg)))", "return self.target(m, self.i_fun(m, arg))"),
    ("methodmap-skips-ifun", TR, "return self.o_fun(m, self.target(m, self.i_fun(m, arg)))", "return self.o_fun(m, self.target(m, arg))"),
    ("filter-calls-unconditionally", TR, "                with m.If(self.condition(m, arg)):\n                    m.d.comb += ret.eq(self.target(m, arg))", "                res = self.target(m, arg)\n                with m.If(self.condition(m, arg)):\n                    m.d.comb += ret.eq(res)"),
    ("filter-blocking-condition", TR, "with condition(m, nonblocking=True) as branch:", "with condition(m, nonblocking=False) as branch:"),
    ("filter-default-after", TR, "        ret = Signal.like(self.target.data_out)\n        m.d.comb += assign(ret, self.default, fields=AssignType.ALL)\n\n        @def_method(m, self.method, single_caller=self.use_condition)", "        ret = Signal.like(self.target.data_out)\n\n        @def_method(m, self.method, single_caller=self.use_condition)"),
    ("product-skips-first", TR, "            for target in self.targets:\n                results.append(target(m, arg))", "            for target in self.targets[1:]:\n                results.append(target(m, arg))"),
    ("tryproduct-flag-ungated", TR, "                    m.d.comb += success.eq(1)", "                    m.d.av_comb += success.eq(1)"),
    ("tryproduct-one-transaction", TR, "            for target in self.targets:\n                success = Signal()\n                with Transaction(src_loc=self.src_loc).body(m):\n                    m.d.comb += success.eq(1)\n                    results.append((success, target(m, arg)))", "            with Transaction(src_loc=self.src_loc).body(m):\n                for target in self.targets:\n                    success = Signal()\n                    m.d.comb += success.eq(1)\n                    results.append((success, target(m, arg)))"),
    ("wrapper-exclusive", TR, "@def_method(m, self.method, nonexclusive=True, combiner=Body._default_combiner(self.target.layout_in))", "@def_method(m, self.method)"),
    ("collector-provides-peek", TR, "self.method.provide(forwarder.read)", "self.method.provide(forwarder.peek)"),
    ("product-create-misaligned", TR, "        for m1, m2 in zip(tr.targets, targets):\n            m1.provide(m2)\n        return tr\n\n    def elaborate(self, platform):\n        m = TModule()\n\n        @def_method(m, self.method)\n        def _(arg):\n            results = []", "        for m1, m2 in zip(tr.targets, reversed(targets)):\n            m1.provide(m2)\n        return tr\n\n    def elaborate(self, platform):\n        m = TModule()\n\n        @def_method(m, self.method)\n        def _(arg):\n            results = []"),
]
