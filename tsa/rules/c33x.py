"""C33: Event.from_raw rebuilds a *typed* event: every dynamic and every static field goes through the conversion to
its declared field type (enum members, bools), with the raw value of the same name."""

from __future__ import annotations

from ..pm import pat, pmatch
from ..pyfacts import Fn, loops
from ..stage import Return, Store
from ..term import tstr

EVENT = "transactron/evlog/event.py"


def from_raw_typed(ctx, pid="C33"):
    ctx.use(EVENT)
    fn = Fn(ctx.repo, EVENT, "Event.from_raw", pid)
    CLS, dyn, sta = fn.param(0), fn.param(1), fn.param(2)
    seen = {}
    for ex in fn.exs:
        rets = [r for r in ex.of(Return) if r.callid is None]
        kw = None
        for r in rets:
            v = r.value
            if v[0] == "call" and not v[2] and len(v[3]) == 1 and v[3][0][0] is None and tstr(v[1]) == "cls":
                kw = v[3][0][1]
        ctx.check(kw is not None, f"{pid}.from-raw", fn.site, "Event.from_raw.result", found="; ".join(tstr(r.value) for r in rets), required="returns cls(**kwargs)")
        if kw is None:
            continue
        for s in ex.of(Store):
            if s.target[0] != "i" or s.target[1] != kw:
                continue
            lp = loops(s)
            if len(lp) != 1:
                continue
            name = lp[0][0][0]
            kind = "dynamic" if lp[0][1] == ("a", CLS, "_dynamic_fields") else ("static" if lp[0][1] == ("a", CLS, "_static_fields") else None)
            if kind is None:
                continue
            raw = dyn if kind == "dynamic" else sta
            want = ("call", ("n", "_convert_field"), (("i", ("a", CLS, "_field_types"), name), ("i", raw, name)), ())
            seen[kind] = True
            ctx.check(s.target[2] == name and s.value == want, f"{pid}.from-raw", s.site, f"Event.from_raw.{kind}", found=f"{tstr(s.target)} <- {tstr(s.value)}",
                      required=f"every {kind} field: kwargs[name] = _convert_field(declared type of name, {'dynamics' if kind == 'dynamic' else 'statics'}[name])")
    ctx.check(set(seen) == {"dynamic", "static"}, f"{pid}.from-raw", fn.site, "Event.from_raw.fields", found=str(sorted(seen)), required="dynamic and static fields are both reconstructed")
