"""TModule.FSM keeps a current-FSM pointer that State mirrors into the avoiding module (`If(self.fsm.ongoing(name))`);
with nested FSMs the pointer must be saved on entry and restored on exit, otherwise the states of the outer FSM that are
declared after an inner FSM are mirrored with the inner FSM's (undriven) state signal and their av_comb drives never fire."""

from __future__ import annotations

import ast

from ..pm import pat, pmatch
from ..report import Ctx
from ..stage import Effect, Store
from ..term import tstr
from .core import _fn

TMOD = "transactron/core/tmodule.py"


def tmodule_fsm_restore(ctx: Ctx, pid: str):
    rule = f"{pid}.fsm-pointer"
    fn = _fn(ctx, TMOD, "TModule.FSM", rule)
    FSM = pat("self.fsm")
    for ex in fn.exs:
        stores = [s for s in ex.of(Store) if s.target == FSM]
        ys = [e for e in ex.of(Effect) if e.call[0] == "call" and e.call[1] == ("n", "yield")]
        inner = [s for s in stores if any(fr[0] == "fsm" for fr in s.frames)]
        outer = [s for s in stores if not s.frames]
        ok = len(inner) == 1 and len(ys) == 1 and inner[0].seq < ys[0].seq and inner[0].value[0] == "ret"
        ctx.check(ok, rule + ".set", inner[0].site if inner else fn.site, "TModule.FSM.enter", found="; ".join(f"{tstr(s.target)} <- {tstr(s.value)}" for s in stores) or "no store",
                  required="inside the block the pointer is the FSM just opened in the main module")
        # the restoring store takes its value from a local that was read from self.fsm before the pointer was overwritten
        node = fn.fi.node
        saved = {}
        first_set = None
        restored = None
        for st in ast.walk(node):
            if isinstance(st, ast.Assign) and len(st.targets) == 1:
                t, v = st.targets[0], st.value
                if isinstance(t, ast.Name) and isinstance(v, ast.Attribute) and isinstance(v.value, ast.Name) and v.value.id == "self" and v.attr == "fsm":
                    saved[t.id] = st.lineno
                if isinstance(t, ast.Attribute) and isinstance(t.value, ast.Name) and t.value.id == "self" and t.attr == "fsm":
                    if isinstance(v, ast.Name) and v.id in saved and first_set is not None and st.lineno > first_set:
                        restored = (v.id, st.lineno)
                    elif first_set is None or st.lineno < first_set:
                        first_set = st.lineno if first_set is None else min(first_set, st.lineno)
        # second pass for the case where the restore was visited before the first set was known
        if restored is None and first_set is not None:
            for st in ast.walk(node):
                if isinstance(st, ast.Assign) and len(st.targets) == 1 and isinstance(st.targets[0], ast.Attribute) and isinstance(st.targets[0].value, ast.Name) and st.targets[0].value.id == "self" \
                        and st.targets[0].attr == "fsm" and isinstance(st.value, ast.Name) and st.value.id in saved and saved[st.value.id] < first_set < st.lineno:
                    restored = (st.value.id, st.lineno)
        ok2 = len(outer) == 1 and bool(ys) and outer[0].seq > ys[0].seq and restored is not None and saved.get(restored[0], 10**9) < (first_set or 0)
        ctx.check(ok2, rule + ".restore", outer[0].site if outer else fn.site, "TModule.FSM.exit", found=(f"restored from `{restored[0]}` (saved at line {saved[restored[0]]})" if restored else "no restoring assignment after the block"),
                  required="the previous pointer is saved before the block and restored after it (nested FSMs: later states of the outer FSM are mirrored with the outer FSM again)")
