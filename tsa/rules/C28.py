"""C28 - PipelineBuilder: plumbing only (stage/connector index agreement, forwarded fields, clear fan-out, liveness
transfer function).  Ordering, losslessness and the computed values are NOT decided."""

from .common import *
from ..pm import pmatch, pat, has
from ..pyfacts import Fn, loops, py_guard
from ..stage import Effect, Store as St

REL = "transactron/lib/pipeline.py"


def _cfgs(comp, **want):
    out = []
    for ex in comp.configs:
        d = {tstr(t): v for t, v in ex.config}
        if all(any(k in key and d[key] == v for key in d) for k, v in want.items()):
            out.append(ex)
    return out


def check(ctx):
    ctx.use(REL)
    comp = Component(ctx.repo, REL, "PipelineBuilder", rule="C28")
    comp.require_modelled("C28")
    ctx.floor("C28", "PipelineBuilder configurations", len(comp.configs), 8, comp.site)
    # the connector put between two nodes by default is Pipe: "clear discards all in-flight items" and "every item passes
    # each stage exactly once" lean on its one-slot behaviour (clear wins over a write of the same cycle)
    from . import C17 as _c17

    ctx.use(_c17.REL)
    pf = [o for ex_ in comp.configs for o in ex_.objects.values()]
    _c17.check_pipe(ctx)
    ex0 = comp.configs[0]
    # roles: the two method lists
    rl = wl = None
    for s in ex0.of(St):
        o = ex0.obj(s.value)
        if s.target[0] == "i" and o is not None and is_call(o.ctor, "Method"):
            kw = dict(o.ctor[3])
            fl = [fr for fr in s.frames if fr[0] == "for"]
            if "o" in kw and "i" not in kw:
                rl = (s.target[1], s.target[2], kw["o"], fl)
            if "i" in kw and "o" not in kw:
                wl = (s.target[1], s.target[2], kw["i"], fl)
    if rl is None or wl is None:
        raise AnalysisError("C28", comp.site, "PipelineBuilder: inter-stage read/write method lists not found", missing="PipelineBuilder: inter-stage read/write method lists not found")
    reads, ridx, rlay, rfl = rl
    writes, widx, wlay, wfl = wl
    b = rfl[0][1][0] if rfl else None
    ok = (rfl == wfl and len(rfl) == 1 and lin_equal(ridx, ("op", "+", b, ("c", 1))) and widx == b and rlay == wlay
          and pmatch("Q_lt[Q_i].items()", rlay) is not None and pmatch("Q_lt[Q_i].items()", rlay)["i"] == b and "get_live_signals" in tstr(ex0.vardef(pmatch("Q_lt[Q_i].items()", rlay)["lt"]) or ("c", None)) and pmatch("range(Q_n)", rfl[0][2]) is not None and lin_equal(pmatch("range(Q_n)", rfl[0][2])["n"], pat("len(self._nodes) - 1")))
    ctx.check(ok, "C28.connector-layouts", ex0.of(St)[0].site, "PipelineBuilder.inter-stage-methods", found=f"reads[{tstr(ridx)}] o={tstr(rlay)}; writes[{tstr(widx)}] i={tstr(wlay)} for {tstr(rfl[0][2]) if rfl else None}",
              required="for every i < n-1: write_methods[i] and read_methods[i+1] carry the same live fields live_types[i]")
    lt = ex0.vardef(("v", "live_types", 0))
    # stage methods
    seen_read = seen_write = seen_first = seen_last = False
    for ex in comp.configs:
        cn = cfg_name(ex)
        stage = [bd for bd in ex.of(BodyDef) if bd.owner != pat("self.clear")]
        if len(stage) != 1:
            raise AnalysisError("C28", comp.site, f"expected one stage body, found {len(stage)}")
        sb = stage[0]
        fl = [fr for fr in sb.frames if fr[0] == "for"]
        i = fl[0][1][0] if fl else None
        ok = len(fl) == 1 and fl[0][2] == pat("range(len(self._nodes))") and sb.ready == ("a", ("i", pat("self._nodes"), i), "ready")
        ctx.check(ok, "C28.stage-per-node", sb.site, "PipelineBuilder.stage", found=f"for {tstr(fl[0][2]) if fl else None}, ready={tstr(sb.ready)}", required="one combiner method per node, ready = that node's ready")
        calls = calls_in_body(ex, sb)
        rc = [c for c in calls if c.callee[0] == "i" and c.callee[1] == reads]
        wc = [c for c in calls if c.callee[0] == "i" and c.callee[1] == writes]
        ctx.check(len(rc) <= 1 and all(c.callee[2] == i for c in rc), "C28.stage-reads-own-input", sb.site, f"PipelineBuilder.stage.read[{cn}]", found="; ".join(tstr(c.callee) for c in rc) or "none",
                  required="stage i reads read_methods[i]")
        ctx.check(len(wc) <= 1 and all(c.callee[2] == i for c in wc), "C28.stage-writes-own-output", sb.site, f"PipelineBuilder.stage.write[{cn}]", found="; ".join(tstr(c.callee) for c in wc) or "none",
                  required="stage i writes write_methods[i]")
        cfg = {tstr(t): v for t, v in ex.config}
        w_none = [v for k, v in cfg.items() if "None is" in k and tstr(writes) in k]
        if w_none and w_none[0] is False:
            seen_write = True
            ctx.check(len(wc) == 1 and not [fr for fr in wc[0].frames if fr[0] in ("if", "elif", "else")] and wc[0].enable is None and "enable_call" not in dict(wc[0].kwargs), "C28.stage-always-forwards", sb.site, f"PipelineBuilder.stage.write-present[{cn}]", found=f"{len(wc)} write call(s)", required="a stage with a successor always writes its output (unconditionally)")
            if wc:
                col = wc[0].args[0] if wc[0].args else None
                ws = [h for h in ex.of(HwAssign) if h.lhs is not None and h.lhs[0] == "i" and h.lhs[1] == col]
                for h in ws:
                    k = h.lhs[2]
                    gen_here = [fr for fr in h.frames if fr[0] == "py" and fr[1][0] == "op" and fr[1][1] == "in" and fr[1][2] == k and "get_generated_fields" in tstr(_expand(ex, fr[1][3]))]
                    pol = gen_here[0][2] if gen_here else None
                    if pol is True:
                        okf = h.rhs == ("i", ("arg", sb.bodyid), k)
                        what = "a field generated by this node comes from the node's argument"
                    else:
                        okf = h.rhs[0] == "i" and h.rhs[2] == k and bool(rc) and any(x == ("ret", rc[0].callid) for x in subterms(h.rhs[1]))
                        what = "any other live field is passed through from the stage input"
                    kfl = [fr for fr in h.frames if fr[0] == "for" and k in fr[1]]
                    okd = bool(kfl) and pmatch("Q_w.layout_in.members.keys()", kfl[0][2]) is not None and pmatch("Q_w.layout_in.members.keys()", kfl[0][2])["w"] == ("i", writes, i)
                    ctx.check(okf and okd and h.domain == ("c", "top_comb"), "C28.forwarded-fields", h.site, f"PipelineBuilder.collected[{'generated' if pol else 'passed'}][{cn}]", found=f"{tstr(h.lhs)} <- {tstr(h.rhs)[:80]} for {tstr(kfl[0][2]) if kfl else None}",
                              required=what + " (for every field of the successor's layout, same field name on both sides)")
                ctx.check(len(ws) == 1, "C28.forwarded-fields", sb.site, f"PipelineBuilder.collected.count[{cn}]", found=f"{len(ws)} assignment(s) in this configuration", required="each field assigned once", nontrivial=False)
        elif w_none:
            seen_last = True
            ctx.check(not wc, "C28.last-stage", sb.site, f"PipelineBuilder.stage.last[{cn}]", found=f"{len(wc)} write call(s)", required="the last stage has no successor")
        # output: required fields of the node from the input
        outs = [h for h in ex.of(HwAssign) if h.lhs == sb.ret and h.via == "assign"]
        if cfg.get("out_layout.members") is True:
            ok = len(outs) == 1 and outs[0].fields == ("a", ("n", "AssignType"), "LHS") and (not rc or any(x == ("ret", rc[0].callid) for x in subterms(outs[0].rhs)))
            ctx.check(ok, "C28.stage-output", outs[0].site if outs else sb.site, f"PipelineBuilder.out_data[{cn}]", found="; ".join(f"assign(out, {tstr(h.rhs)[:60]}, {tstr(h.fields) if h.fields else None})" for h in outs) or "none",
                      required="the node receives its required fields from the stage input (AssignType.LHS)")
        # node wiring
        nd = cfg.get("self._nodes[$b0].no_dependency")
        fin = [c for c in ex.of(MethodCall) if c.callee[0] == "a" and c.callee[2] == "finalize"]
        nodep = [s for s in ex.of(Submodule) if ex.obj(s.value) is not None and is_call(ex.obj(s.value).ctor, "Pipe")]
        ncfg = [v for k, v in cfg.items() if "no_dependency" in k]
        if ncfg and ncfg[0]:
            p = nodep[0].value if nodep else None
            ok = (p is not None and len(fin) == 1 and fin[0].args == (("a", p, "write"),) and any(pmatch("ConnectTrans.create(Q_a, Q_b)", s.value) == {"a": ("a", p, "read"), "b": sb.owner} for s in ex.of(Submodule))
                  and any(pmatch("Q_l.append(Q_x)", e.call) and pmatch("Q_l.append(Q_x)", e.call)["x"] == ("a", p, "clear") and pmatch("Q_l.append(Q_x)", e.call)["l"] == _clear_src(ex, comp) for e in ex.of(Effect)))
            ctx.check(ok, "C28.no-dependency-node", sb.site, f"PipelineBuilder.nodep[{cn}]", found=f"pipe={'yes' if p else 'no'}, finalize={[tstr(a) for c in fin for a in c.args]}", required="no_dependency: node -> Pipe.write; Pipe.read -> stage method by a ConnectTrans; the pipe's clear is collected")
        elif ncfg:
            ok = len(fin) == 1 and fin[0].args == (sb.owner,) and fin[0].callee == ("a", ("a", ("i", pat("self._nodes"), i), "node"), "finalize")
            ctx.check(ok, "C28.node-finalize", sb.site, f"PipelineBuilder.finalize[{cn}]", found="; ".join(f"{tstr(c.callee)}({', '.join(tstr(a) for a in c.args)})" for c in fin), required="node i is connected to stage method i")
    ctx.check(seen_write and seen_last, "C28.stage-kinds", comp.site, "PipelineBuilder.stage-kinds", found=f"with successor: {seen_write}; last: {seen_last}", required="both inner and last stages analysed", nontrivial=False)
    # connectors
    ex = comp.configs[0]
    prov = [r for r in ex.of(Relation) if r.kind == "provide"]
    fwdsub = [s for s in ex.of(Submodule) if pmatch("self._nodes[Q_i].forwarder(Q_l)", ex.vardef(s.value) or s.value)]
    ok = len(fwdsub) == 1
    if ok:
        s = fwdsub[0]
        fwd = s.value
        m = pmatch("self._nodes[Q_i].forwarder(Q_l)", ex.vardef(fwd) or fwd)
        j = m["i"]
        fl = [fr for fr in s.frames if fr[0] == "for"]
        ok = (len(fl) == 1 and fl[0][1][0] == j and fl[0][2] == pat("range(1, len(self._nodes))") and m["l"][0] == "a" and m["l"][2] == "layout_in"
              and m["l"][1][0] == "i" and m["l"][1][1] == writes and lin_equal(m["l"][1][2], ("op", "-", j, ("c", 1))))
        pw = [r for r in prov if r.args == (("a", fwd, "write"),)]
        pr = [r for r in prov if r.args == (("a", fwd, "read"),)]
        ok = ok and len(pw) == 1 and len(pr) == 1 and pw[0].subject[0] == "i" and pw[0].subject[1] == writes and lin_equal(pw[0].subject[2], ("op", "-", j, ("c", 1))) and pr[0].subject == ("i", reads, j)
        okc = any(pmatch("Q_l.append(Q_x)", e.call) and pmatch("Q_l.append(Q_x)", e.call)["x"] == ("a", fwd, "clear") and pmatch("Q_l.append(Q_x)", e.call)["l"] == _clear_src(ex, comp) and [fr for fr in e.frames if fr[0] == "for"] == fl for e in ex.of(Effect))
        ctx.check(okc, "C28.connector-clear-collected", s.site, "PipelineBuilder.connector.clear", found="clear of every connector appended" if okc else "missing", required="every connector's clear is collected for the pipeline clear")
    ctx.check(ok, "C28.connectors", fwdsub[0].site if fwdsub else comp.site, "PipelineBuilder.connector", found="; ".join(f"{tstr(r.subject)}.provide({tstr(r.args[0])})" for r in prov),
              required="connector i (1 <= i < n): write_methods[i-1] provided by its write, read_methods[i] by its read, layout of write_methods[i-1]")
    # clear fans out to all collected clears
    cb = need_body(ex, "clear", "C28", comp.site)
    cc = calls_in_body(ex, cb)
    ok = len(cc) == 1 and cc[0].callee[0] == "b" and cc[0].enable is None and not [fr for fr in cc[0].frames if fr[0] in ("if", "py")]
    if ok:
        src = cc[0].callee[2]
        d = ex.vardef(src) or src
        ok = pmatch("self._clear_methods.copy()", d) is not None
        apps = [e for e in ex.of(Effect) if pmatch("Q_l.append(Q_x)", e.call) and pmatch("Q_l.append(Q_x)", e.call)["l"] == src]
        ok = ok and len(apps) >= 1 and all(e.seq < cb.seq for e in apps)
    ctx.check(ok, "C28.clear-fanout", cb.site, "PipelineBuilder.clear", found="; ".join(f"{tstr(c.callee)} in {[tstr(fr[2]) for fr in c.frames if fr[0] == 'for']}" for c in cc),
              required="clear calls every collected clear method (external clears, all connectors, all no_dependency pipes), unconditionally")
    _liveness(ctx)
    _nodes(ctx)


def is_call(t, name):
    return t[0] == "call" and t[1] == ("n", name)


def _expand(ex, t, depth=3):
    """Replace local variables holding call results by their definitions."""
    from ..term import rewrite

    for _ in range(depth):
        t2 = rewrite(t, lambda x: ex.vardef(x) if x[0] == "v" else None)
        if t2 == t:
            break
        t = t2
    return t


def _clear_src(ex, comp):
    """The list the `clear` method iterates over (the clears that are actually called)."""
    cb = [bd for bd in ex.of(BodyDef) if bd.owner == pat("self.clear")]
    if not cb:
        return None
    cc = calls_in_body(ex, cb[0])
    if len(cc) == 1 and cc[0].callee[0] == "b":
        return cc[0].callee[2]
    return None


def _liveness(ctx):
    fn = Fn(ctx.repo, REL, "PipelineBuilder.get_live_signals", "C28")
    ex = fn.exs[0]
    effs = [e for e in ex.of(Effect)]
    snap = [e for e in effs if pmatch("Q_l.append(Q_live.copy())", e.call)]
    pops = [e for e in effs if pmatch("Q_live.pop(Q_k, None)", e.call)]
    upd = [e for e in effs if pmatch("Q_live.update(Q_r)", e.call)]
    rev = [e for e in effs if pmatch("Q_l.reverse()", e.call)]
    ok = len(snap) >= 1 and len(pops) >= 1 and len(upd) >= 1 and len(rev) >= 1
    detail = f"snapshot={len(snap)} kill={len(pops)} gen={len(upd)} reverse={len(rev)}"
    if ok:
        s, p, u, r = snap[0], pops[0], upd[0], rev[0]
        live = pmatch("Q_l.append(Q_live.copy())", s.call)["live"]
        okorder = s.seq < p.seq < u.seq < r.seq
        lp = loops(s)
        okloop = len(lp) == 1 and has("reversed(range(len(self._nodes)))", lp[0][1]) and not loops(r)
        mk = pmatch("Q_live.pop(Q_k, None)", p.call)
        kl = loops(p)
        mu = pmatch("Q_live.update(Q_r)", u.call)
        okgen = mu["live"] == live and "get_required_fields" in tstr(_expand(ex, mu["r"]))
        okkill = mk["live"] == live and len(kl) == 2 and "get_generated_fields" in tstr(_expand(ex, kl[1][1])) and mk["k"] == kl[1][0][0]
        ok = okorder and okloop and okkill and okgen
        detail += f"; order ok={okorder}, backwards loop={okloop}, kills generated={okkill}, adds required={okgen}"
    ctx.check(ok, "C28.liveness-transfer", fn.site, "PipelineBuilder.get_live_signals", found=detail,
              required="backwards over the nodes: snapshot live-out, remove the generated fields, then add the required fields; reverse at the end")


def _nodes(ctx):
    for cls, req, gen in (("_ProvidedMethodNode", "layout_out", "layout_in"), ("_CalledMethodNode", "layout_in", "layout_out")):
        for fname, want in (("get_required_fields", req), ("get_generated_fields", gen)):
            fn = Fn(ctx.repo, REL, f"{cls}.{fname}", "C28")
            rets = fn.facts(Return)
            ok = len(rets) == 1 and rets[0][1].value == ("a", pat("self.method"), want)
            ctx.check(ok, "C28.node-orientation", fn.site, f"{cls}.{fname}", found="; ".join(tstr(r.value) for _, r in rets), required=f"self.method.{want}")
    fn = Fn(ctx.repo, REL, "_ProvidedMethodNode.finalize", "C28")
    ok = any(r.kind == "provide" and r.subject == pat("self.method") and r.args == (fn.param(2),) for ex in fn.exs for r in ex.of(Relation))
    ctx.check(ok, "C28.node-finalize", fn.site, "_ProvidedMethodNode.finalize", found="provide" if ok else "other", required="an external method is provided by the stage method")
    fn = Fn(ctx.repo, REL, "_CalledMethodNode.finalize", "C28")
    ok = any(pmatch("ConnectTrans.create(self.method, Q_m)", s.value) == {"m": fn.param(2)} for ex in fn.exs for s in ex.of(Submodule))
    ctx.check(ok, "C28.node-finalize", fn.site, "_CalledMethodNode.finalize", found="ConnectTrans" if ok else "other", required="a called method is connected to the stage method by a ConnectTrans")


MUTANTS = [
    ("stage-reads-next", REL, "            read_method = read_methods[i]\n            write_method = write_methods[i]", "            read_method = read_methods[i]\n            write_method = write_methods[i - 1]"),
    ("connector-off-by-one", REL, "            prev_write = write_methods[i - 1]\n            curr_read = read_methods[i]", "            prev_write = write_methods[i - 1]\n            curr_read = read_methods[i - 1]"),
    ("read-layout-shifted", REL, 'read_methods[i + 1] = Method(name=f"{i}_pipeline_read", o=live_types[i].items())', 'read_methods[i + 1] = Method(name=f"{i}_pipeline_read", o=live_types[i + 1].items())'),
    ("generated-field-from-input", REL, "                        if k in in_layout.members.keys():\n                            m.d.top_comb += collected[k].eq(arg[k])\n                        else:\n                            m.d.top_comb += collected[k].eq(in_data[k])", "                        if k in in_layout.members.keys() and k not in out_layout.members.keys():\n                            m.d.top_comb += collected[k].eq(arg[k])\n                        else:\n                            m.d.top_comb += collected[k].eq(in_data[k])"),
    ("connector-clear-dropped", REL, "            curr_read.provide(fwd.read)\n\n            clear_methods.append(fwd.clear)\n", "            curr_read.provide(fwd.read)\n"),
    ("nodep-clear-dropped", REL, "                m.submodules += ConnectTrans.create(nodep.read, stage_method)\n\n                clear_methods.append(nodep.clear)\n", "                m.submodules += ConnectTrans.create(nodep.read, stage_method)\n"),
    ("clear-skips-first", REL, "            for clear_method in clear_methods:\n                _ = clear_method(m)", "            for clear_method in clear_methods[1:]:\n                _ = clear_method(m)"),
    ("liveness-kill-after-gen", REL, "            for k in gen.keys():\n                live.pop(k, None)\n\n            live.update(req)", "            live.update(req)\n\n            for k in gen.keys():\n                live.pop(k, None)"),
    ("provided-node-orientation", REL, "    def get_required_fields(self):\n        return self.method.layout_out\n\n    def get_generated_fields(self):\n        return self.method.layout_in\n\n    def finalize(self, m: TModule, method: Method) -> None:\n        self.method.provide(method)", "    def get_required_fields(self):\n        return self.method.layout_in\n\n    def get_generated_fields(self):\n        return self.method.layout_out\n\n    def finalize(self, m: TModule, method: Method) -> None:\n        self.method.provide(method)"),
    ("stage-write-conditional", REL, "                    _ = write_method(m, collected)\n", "                    _ = write_method(m, collected, enable_call=node.ready)\n"),
    ("nodep-bypassed", REL, "                node.node.finalize(m, nodep.write)\n", "                node.node.finalize(m, stage_method)\n"),
]
