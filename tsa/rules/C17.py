"""C17 - Forwarder and Pipe are lossless one-slot buffers.

Complete register-transfer comparison against a one-slot reference model
written in roles:  valid flag = the register set to 1 by `write`;
data register = the register loaded from `write`'s argument.
"""

from .common import *

REL = "transactron/lib/connectors.py"


def _roles(ctx, comp, ex, rule):
    w = need_body(ex, "write", rule, comp.site)
    r = need_body(ex, "read", rule, comp.site)
    p = need_body(ex, "peek", rule, comp.site)
    c = need_body(ex, "clear", rule, comp.site)
    from . import excl

    excl.exclusive(ctx, "C17", comp.cls.name if hasattr(comp, "cls") and hasattr(comp.cls, "name") else "buffer", w, r)
    # valid flag: register written with constant 1 in write's body
    valid = None
    data = None
    for f in facts_in_body(ex, w, HwAssign):
        if is_sync(f.domain) and f.lhs is not None:
            if const_pred(1)(f.rhs) and valid is None:
                valid = f.lhs
            elif f.rhs == ("arg", w.bodyid) and data is None:
                data = f.lhs
    if valid is None or data is None:
        raise AnalysisError(rule, w.site, f"{comp.clsname}.write: cannot identify valid flag / data register roles",
                            missing=f"{comp.clsname}.write: " + ("a register set to 1 by write (valid flag)" if valid is None else "a register loaded with write's argument (data register)"))
    return w, r, p, c, valid, data


def _common(ctx, comp, ex, w, r, p, c, valid, data, name):
    site = comp.site
    # data register: written only by write, only from its argument
    dw = writers_of(ex, data, sync=True)
    ok = all(enclosing_body(ex, x.fact) is w and x.rhs == ("arg", w.bodyid) for x in dw) and len(dw) >= 1
    ctx.check(ok, "C17.data-writers", dw[0].fact.site if dw else site, f"{name}.data_reg",
              found="; ".join(f"{x.fact.site}: {tstr(x.rhs)}" for x in dw), required="only write stores its argument")
    # peek never consumes
    no_effects(ctx, "C17.peek-effect-free", comp, ex, p)
    ctx.check(flag_true(p, "nonexclusive"), "C17.peek-nonexclusive", p.site, f"{name}.peek.nonexclusive",
              found=str({k: tstr(v) for k, v in p.kwargs.items()}), required="nonexclusive=True", nontrivial=False)
    # read: only effect is on the valid flag
    extra = [f for f in facts_in_body(ex, r, HwAssign) if (is_sync(f.domain) or domain_class(f.domain) == RUN_GATED) and f.lhs != valid]
    extra += facts_in_body(ex, r, MethodCall)
    ctx.check(not extra, "C17.read-effects", r.site, f"{name}.read.effects", found="; ".join(x.site for x in extra) or "valid flag only",
              required="read only clears the valid flag")


def check_forwarder(ctx):
    comp = Component(ctx.repo, REL, "Forwarder", rule="C17")
    comp.require_modelled("C17")
    ex = one_config(comp, "C17")
    w, r, p, c, valid, data = _roles(ctx, comp, ex, "C17.forwarder")
    V = A(valid)
    check_ready(ctx, "C17.fwd-write-ready", comp, ex, w, f_not(V), "write ready iff buffer empty")
    check_ready(ctx, "C17.fwd-read-ready", comp, ex, r, f_or(V, run_f(w)), "read ready iff full or write runs")
    check_ready(ctx, "C17.fwd-peek-ready", comp, ex, p, f_or(V, run_f(w)), "peek ready as read")
    t = decision_table(ex, valid, sync=True)
    W, R, Cl = run_f(w), run_f(r), run_f(c)
    check_table(ctx, "C17.fwd-valid-next", comp.site, "Forwarder.valid'", t, [
        (Cl, const_pred(0), "clear empties the buffer (wins over write)"),
        (R, const_pred(0), "read leaves the buffer empty (also when write is forwarded in the same cycle)"),
        (f_and(W, f_not(R), f_not(Cl)), const_pred(1), "write without read fills the buffer"),
        (f_and(f_not(W), f_not(R), f_not(Cl)), HOLD, "no call: flag holds"),
    ])
    # bypass value: what read/peek return
    rv = returned_fields(r).get("")
    pv = returned_fields(p).get("")
    ctx.check(rv is not None and rv == pv, "C17.fwd-peek-same-value", p.site, "Forwarder.peek.ret",
              found=f"read->{tstr(rv) if rv else None} peek->{tstr(pv) if pv else None}", required="peek returns what read returns")
    if rv is None:
        raise AnalysisError("C17.fwd-bypass", r.site, "Forwarder.read returns nothing", missing="Forwarder.read returns nothing")
    bt = decision_table(ex, rv, sync=False)
    check_table(ctx, "C17.fwd-bypass", comp.site, "Forwarder.read_value", bt, [
        (V, term_pred(data), "buffer full: the stored value is delivered (last writer)"),
        (f_and(f_not(V), W), term_pred(("arg", w.bodyid)), "buffer empty and write runs: the written value is forwarded"),
    ])
    _common(ctx, comp, ex, w, r, p, c, valid, data, "Forwarder")
    for tgt in ("read", "peek"):
        ctx.check(has_relation(ex, "schedule_before", self_method("write"), self_method(tgt)), "C17.fwd-order",
                  comp.site, f"Forwarder.write<{tgt}", found="relations: " + ", ".join(f"{tstr(x.subject)}.{x.kind}({', '.join(tstr(a) for a in x.args)})" for x in ex.of(Relation)),
                  required=f"write.schedule_before({tgt}) because {tgt}.ready reads write.run")


def check_pipe(ctx):
    comp = Component(ctx.repo, REL, "Pipe", rule="C17")
    comp.require_modelled("C17")
    ex = one_config(comp, "C17")
    w, r, p, c, valid, data = _roles(ctx, comp, ex, "C17.pipe")
    V = A(valid)
    check_ready(ctx, "C17.pipe-read-ready", comp, ex, r, V, "read ready iff buffer full")
    check_ready(ctx, "C17.pipe-peek-ready", comp, ex, p, V, "peek ready iff buffer full")
    check_ready(ctx, "C17.pipe-write-ready", comp, ex, w, f_or(f_not(V), run_f(r)), "write ready iff empty or read runs")
    t = decision_table(ex, valid, sync=True)
    W, R, Cl = run_f(w), run_f(r), run_f(c)
    check_table(ctx, "C17.pipe-valid-next", comp.site, "Pipe.valid'", t, [
        (Cl, const_pred(0), "clear empties the buffer (wins over write)"),
        (f_and(W, f_not(Cl)), const_pred(1), "write fills the buffer (also when read runs in the same cycle)"),
        (f_and(R, f_not(W), f_not(Cl)), const_pred(0), "read without write empties the buffer"),
        (f_and(f_not(W), f_not(R), f_not(Cl)), HOLD, "no call: flag holds"),
    ])
    for b in (r, p):
        v = returned_fields(b).get("")
        ctx.check(v == data, "C17.pipe-out", b.site, f"Pipe.{b.owner[2]}.ret", found=tstr(v) if v else "None",
                  required="returns the data register")
    _common(ctx, comp, ex, w, r, p, c, valid, data, "Pipe")
    ctx.check(has_relation(ex, "schedule_before", self_method("read"), self_method("write")), "C17.pipe-order", comp.site,
              "Pipe.read<write", found="relations: " + ", ".join(f"{tstr(x.subject)}.{x.kind}({', '.join(tstr(a) for a in x.args)})" for x in ex.of(Relation)),
              required="read.schedule_before(write) because write.ready reads read.run")


def check(ctx):
    ctx.use(REL)
    check_forwarder(ctx)
    check_pipe(ctx)
    ctx.floor("C17", "obligations", len(ctx.obligations), 30)


MUTANTS = [
    ("fwd-write-ready-drops-negation", REL, "@def_method(m, self.write, ready=~reg_valid)", "@def_method(m, self.write, ready=~reg_valid | self.read.run)"),
    ("fwd-read-ready-no-bypass", REL, "@def_method(m, self.read, ready=reg_valid | self.write.run)", "@def_method(m, self.read, ready=reg_valid)"),
    ("fwd-bypass-order", REL, """        @def_method(m, self.write, ready=~reg_valid)
        def _(arg):
            m.d.av_comb += read_value.eq(arg)  # for forwarding
            m.d.sync += reg.eq(arg)
            m.d.sync += reg_valid.eq(1)

        with m.If(reg_valid):
            m.d.av_comb += read_value.eq(reg)  # write method is not ready
""", """        with m.If(reg_valid):
            m.d.av_comb += read_value.eq(reg)  # write method is not ready

        @def_method(m, self.write, ready=~reg_valid)
        def _(arg):
            m.d.av_comb += read_value.eq(arg)  # for forwarding
            m.d.sync += reg.eq(arg)
            m.d.sync += reg_valid.eq(1)
"""),
    ("fwd-read-does-not-clear", REL, """        @def_method(m, self.read, ready=reg_valid | self.write.run)
        def _():
            m.d.sync += reg_valid.eq(0)
            return read_value""", """        @def_method(m, self.read, ready=reg_valid | self.write.run)
        def _():
            with m.If(~self.write.run):
                m.d.sync += reg_valid.eq(0)
            return read_value"""),
    ("fwd-clear-noop", REL, """        @def_method(m, self.clear, nonexclusive=True)
        def _():
            m.d.sync += reg_valid.eq(0)

        return m


class Pipe""", """        @def_method(m, self.clear, nonexclusive=True)
        def _():
            pass

        return m


class Pipe"""),
    ("pipe-write-ready", REL, "@def_method(m, self.write, ready=~reg_valid | self.read.run)", "@def_method(m, self.write, ready=~reg_valid)"),
    ("pipe-peek-consumes", REL, """        @def_method(m, self.peek, ready=reg_valid, nonexclusive=True)
        def _():
            return reg""", """        @def_method(m, self.peek, ready=reg_valid, nonexclusive=True)
        def _():
            m.d.sync += reg_valid.eq(0)
            return reg"""),
]
