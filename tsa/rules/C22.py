"""C22 - AsyncMemoryBank reads current contents: the port wiring is the whole mechanism (memory semantics trusted)."""

from .common import *
from ..comp import IDX
from ..pm import pmatch, pat, has

REL = "transactron/lib/storage.py"


def check(ctx):
    ctx.use(REL)
    from . import masklay

    masklay.mask_layout(ctx, "C22", REL, "AsyncMemoryBank")
    comp = Component(ctx.repo, REL, "AsyncMemoryBank", rule="C22")
    comp.require_modelled("C22")
    ctx.floor("C22", "configurations", len(comp.configs), 2, comp.site)
    from . import kinds as _kinds

    _kinds.index_space_agreement(ctx, "C22", comp, "AsyncMemoryBank")
    ctx.floor("C22", "AsyncMemoryBank address fields", _kinds.address_fields(ctx, "C22", REL, "AsyncMemoryBank"), 1, comp.site)
    for ex in comp.configs:
        cn = cfg_name(ex)
        rd, wr = need_body(ex, "read", "C22", comp.site), need_body(ex, "write", "C22", comp.site)
        gnone = [v for t, v in ex.config if tstr(t) == "(self.granularity is None)"]
        gnone = bool(gnone and gnone[0])
        mem = None
        for s in ex.of(Submodule):
            o = ex.obj(s.value)
            if o is not None and pmatch("self.memory_type(depth=self.depth, init=[], shape=self.shape)", o.ctor):
                mem = s.value
        ctx.check(mem is not None, "C22.memory", comp.site, f"AsyncMemoryBank.mem[{cn}]", found="memory_type(shape, depth) submodule" if mem else "not found", required="one memory of the requested shape and depth, registered as submodule")
        rports = wports = None
        for oid, o in ex.objects.items():
            if o.ctor[0] == "lc" and ex.obj(o.ctor[2]) is not None:
                pc = ex.obj(o.ctor[2]).ctor
                if pc[0] == "call" and pc[1] == ("a", mem, "read_port"):
                    rports = ("obj", oid)
                    ctx.check(dict(pc[3]).get("domain") == ("c", "comb") and o.ctor[3][0][1] == pat("range(self.reads_ports)"), "C22.async-read-ports", o.site, f"AsyncMemoryBank.read_ports[{cn}]", found=tstr(pc) + " for " + tstr(o.ctor[3][0][1]),
                              required='one read port per read method with domain="comb" (asynchronous: current contents)')
                if pc[0] == "call" and pc[1] == ("a", mem, "write_port"):
                    wports = ("obj", oid)
                    ctx.check(dict(pc[3]).get("granularity") == pat("self.granularity") and o.ctor[3][0][1] == pat("range(self.writes_ports)"), "C22.write-ports", o.site, f"AsyncMemoryBank.write_ports[{cn}]", found=tstr(pc) + " for " + tstr(o.ctor[3][0][1]),
                              required="one write port per write method with the configured granularity")
        if rports is None or wports is None:
            raise AnalysisError("C22", comp.site, "AsyncMemoryBank: ports not found", missing="AsyncMemoryBank: ports not found")
        # read[i] touches read_port[i] only
        ws = writers_of(ex, ("a", ("i", rports, IDX), "addr"))
        ok = len(ws) == 1 and enclosing_body(ex, ws[0].fact) is rd and ws[0].fact.lhs[1][2] == rd.binder and ws[0].rhs == ("a", ("arg", rd.bodyid), "addr")
        ctx.check(ok, "C22.read-wiring", ws[0].fact.site if ws else rd.site, f"AsyncMemoryBank.read_port.addr[{cn}]", found="; ".join(f"{tstr(w.fact.lhs)} <- {tstr(w.rhs)}" for w in ws), required="read[i] addresses read_port[i] with its argument")
        ctx.check(returned_fields(rd).get("data") == ("a", ("i", rports, rd.binder), "data"), "C22.read-result", rd.site, f"AsyncMemoryBank.read.ret[{cn}]", found=tstr(rd.ret) if rd.ret else "none", required="read[i] returns read_port[i].data")
        for fld in ("addr", "data"):
            ws = writers_of(ex, ("a", ("i", wports, IDX), fld))
            ok = len(ws) == 1 and enclosing_body(ex, ws[0].fact) is wr and ws[0].fact.lhs[1][2] == wr.binder and ws[0].rhs == ("a", ("arg", wr.bodyid), fld)
            ctx.check(ok, "C22.write-wiring", ws[0].fact.site if ws else wr.site, f"AsyncMemoryBank.write_port.{fld}[{cn}]", found="; ".join(f"{tstr(w.fact.lhs)} <- {tstr(w.rhs)}" for w in ws), required=f"write[i] drives write_port[i].{fld} from its argument")
        ws = writers_of(ex, ("a", ("i", wports, IDX), "en"))
        want = const_pred(1) if gnone else (lambda x: x == ("a", ("arg", wr.bodyid), "mask"))
        ok = len(ws) == 1 and enclosing_body(ex, ws[0].fact) is wr and domain_class(ws[0].fact.domain) == RUN_GATED and want(ws[0].rhs) and ws[0].fact.lhs[1][2] == wr.binder
        ctx.check(ok, "C22.write-enable", ws[0].fact.site if ws else wr.site, f"AsyncMemoryBank.write_port.en[{cn}]", found="; ".join(f"{tstr(w.fact.domain)} += {tstr(w.fact.lhs)}.eq({tstr(w.rhs)})" for w in ws),
                  required="write enable only while write[i] runs: 1 without granularity, the mask with granularity")
        for b in (rd, wr):
            ctx.check(to_formula(b.ready) is True, "C22.always-ready", b.site, f"AsyncMemoryBank.{strip_index(b.owner)[2]}.ready[{cn}]", found=tstr(b.ready), required="always ready", nontrivial=False)


MUTANTS = [
    ("mask-width-is-granularity", REL, """            write_layout.append(("mask", amaranth_write_port_sig.members["en"].shape))
        self.writes_layout = make_layout(*write_layout)

        self.read = Methods(read_ports, i=self.read_reqs_layout, o=self.read_resps_layout, src_loc=self.src_loc)""", """            write_layout.append(("mask", amaranth_write_port_sig.granularity))
        self.writes_layout = make_layout(*write_layout)

        self.read = Methods(read_ports, i=self.read_reqs_layout, o=self.read_resps_layout, src_loc=self.src_loc)"""),
    ("sync-read-port", REL, 'read_port = [mem.read_port(domain="comb") for _ in range(self.reads_ports)]', 'read_port = [mem.read_port(domain="sync") for _ in range(self.reads_ports)]'),
    ("read-wrong-port", REL, '            m.d.comb += read_port[i].addr.eq(addr)\n            return {"data": read_port[i].data}', '            m.d.comb += read_port[i].addr.eq(addr)\n            return {"data": read_port[0].data}'),
    ("write-en-av", REL, "            if self.granularity is None:\n                m.d.comb += write_port[i].en.eq(1)\n            else:\n                m.d.comb += write_port[i].en.eq(arg.mask)\n\n        return m\n", "            if self.granularity is None:\n                m.d.top_comb += write_port[i].en.eq(1)\n            else:\n                m.d.comb += write_port[i].en.eq(arg.mask)\n\n        return m\n"),
    ("write-granularity-dropped", REL, "        write_port = [mem.write_port(granularity=self.granularity) for _ in range(self.writes_ports)]\n        read_port = [mem.read_port(domain=\"comb\")", "        write_port = [mem.write_port() for _ in range(self.writes_ports)]\n        read_port = [mem.read_port(domain=\"comb\")"),
    ("write-data-addr-swapped", REL, "            m.d.comb += write_port[i].addr.eq(arg.addr)\n            m.d.comb += write_port[i].data.eq(arg.data)", "            m.d.comb += write_port[i].addr.eq(arg.data)\n            m.d.comb += write_port[i].data.eq(arg.addr)"),
]
