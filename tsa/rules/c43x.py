"""C43, second part: the low-level TestbenchIO operations and the MethodMock state (found as blind spots by the
generic mutation sweep)."""

from __future__ import annotations

import ast

from .core import A
from ..pm import pat, pmatch
from ..pyfacts import Fn, loops, py_guard
from ..stage import Effect, Raise, Return, Store
from ..term import tstr

TB = "transactron/testing/testbenchio.py"
MM = "transactron/testing/method_mock.py"


def low_level(ctx, pid="C43"):
    fn = Fn(ctx.repo, TB, "TestbenchIO.set_inputs", pid)
    effs = [e for ex in fn.exs for e in ex.of(Effect)]
    m = pmatch("Q_s.set(self.adapter.data_in, Q_d)", effs[0].call) if len(effs) == 1 else None
    ctx.check(m is not None and m["s"] == fn.param(1) and m["d"] == fn.param(2) and not effs[0].frames, f"{pid}.set-inputs", fn.site, "TestbenchIO.set_inputs", found="; ".join(tstr(e.call) for e in effs) or "nothing",
              required="drives the adapter's data_in with the given data")
    # call_init: the argument dict if given, else the keyword arguments; both at once is rejected
    fn = Fn(ctx.repo, TB, "TestbenchIO.call_init", pid)
    data, kw = fn.param(2), ("p", fn.fi.qualname, "**", "kwdata")
    for ex in fn.exs:
        cfg = {tstr(t): v for t, v in ex.config}
        si = [e for e in ex.of(Effect) if pmatch("self.set_inputs(Q_s, Q_d)", e.call)]
        if ex.of(Raise):
            ctx.check(cfg.get("data") is True and cfg.get("kwdata") is True, f"{pid}.call-init-data", fn.site, "TestbenchIO.call_init.reject", found=str(cfg), required="only giving both a dict and keyword arguments is rejected", nontrivial=False)
            continue
        if len(si) != 1:
            ctx.bad(f"{pid}.call-init-data", fn.site, "TestbenchIO.call_init.inputs", found=f"{len(si)} set_inputs call(s)", required="inputs are set once")
            continue
        d = pmatch("self.set_inputs(Q_s, Q_d)", si[0].call)["d"]
        want = "data" if cfg.get("data") else "kwdata"
        ctx.check(tstr(d) == want, f"{pid}.call-init-data", si[0].site, f"TestbenchIO.call_init.inputs[data given={bool(cfg.get('data'))}]", found=tstr(d), required="the dict when one is given, otherwise the keyword arguments")
    # sample(): a TestbenchIO is sampled without being called (data None), other values as they are, after the existing entries
    fn = Fn(ctx.repo, TB, "CallTrigger.sample", pid)
    seen = set()
    for ex in fn.exs:
        rets = [r for r in ex.of(Return) if r.callid is None]
        lst = None
        for r in rets:
            m = pmatch("CallTrigger(self.sim, (*self.calls_and_values, *Q_new))", r.value)
            lst = m["new"] if m else None
        apps = [e for e in ex.of(Effect) if lst is not None and pmatch("Q_l.append(Q_x)", e.call) and pmatch("Q_l.append(Q_x)", e.call)["l"] == lst]
        for e in apps:
            lp = loops(e)
            x = pmatch("Q_l.append(Q_x)", e.call)["x"]
            is_tb = any(fr[0] == "py" and fr[2] and pmatch("isinstance(Q_v, TestbenchIO)", fr[1]) for fr in e.frames)
            v = lp[0][0][0] if lp else None
            ok = len(lp) == 1 and (x == ("tuple", v, ("c", None)) if is_tb else x == v)
            seen.add(is_tb)
            ctx.check(ok, f"{pid}.trigger-sample", e.site, f"CallTrigger.sample[{'TestbenchIO' if is_tb else 'value'}]", found=tstr(e.call), required="(tbio, None) for a TestbenchIO (sampled, not called), the value itself otherwise")
        ctx.check(lst is not None, f"{pid}.trigger-sample", fn.site, "CallTrigger.sample.result", found="; ".join(tstr(r.value)[:120] for r in rets), required="the new entries follow the existing ones", nontrivial=False)
    ctx.check(seen == {True, False}, f"{pid}.trigger-sample", fn.site, "CallTrigger.sample.kinds", found=str(sorted(seen)), required="both kinds of sampled entries are handled")
    # call_do: wait until done, then disable, return the outputs
    fn = Fn(ctx.repo, TB, "TestbenchIO.call_do", pid)
    for ex in fn.exs:
        effs = ex.of(Effect)
        aw = [e for e in effs if e.call[0] == "call" and e.call[1] == ("n", "await")]
        ds = [e for e in effs if pmatch("self.disable(Q_s)", e.call)]
        ok = len(aw) == 1 and len(ds) == 1 and aw[0].seq < ds[0].seq and pmatch("self.sample_outputs_until_done(Q_s)", aw[0].call[2][0]) is not None
        ctx.check(ok, f"{pid}.call-do", fn.site, "TestbenchIO.call_do", found="; ".join(tstr(e.call) for e in effs), required="waits for done, then disables the adapter")


def mock_state(ctx, pid="C43"):
    fn = Fn(ctx.repo, MM, "MethodMock.__init__", pid)
    for ex in fn.exs:
        st = {tstr(s.target): s.value for s in ex.of(Store)}
        ok = st.get("self._freeze") == ("c", False) and st.get("self._effects") == ("list",)
        ctx.check(ok, f"{pid}.mock-initial-state", fn.site, "MethodMock.__init__.state", found=f"_freeze={tstr(st.get('self._freeze', ('c', None)))}, _effects={tstr(st.get('self._effects', ('c', None)))}",
                  required="a new mock is not frozen and has no pending effects")
    a = fn.fi.node.args
    d = {k.arg: ast.unparse(v) for k, v in zip(a.kwonlyargs, a.kw_defaults) if v is not None}
    ctx.check(d.get("enable") == "lambda: True" and d.get("delay") == "0", f"{pid}.mock-defaults", fn.site, "MethodMock.__init__.defaults", found=str({k: d.get(k) for k in ("enable", "delay")}), required="enabled by default, no delay", nontrivial=False)
    # the freeze flag is set at the clock edge in both change-driven processes
    for q, idx in (("MethodMock.output_process", -1), ("MethodMock.validate_arguments_process", -2)):
        f = Fn(ctx.repo, MM, q, pid)
        sts = [(ex, s) for ex in f.exs for s in ex.of(Store) if s.target == pat("self._freeze")]
        ok = bool(sts)
        for ex, s in sts:
            lp = loops(s)
            g = py_guard(s)
            ok = ok and s.value == ("c", True) and len(lp) == 1 and g == A(("i", lp[0][0][0], ("c", idx)))
        ctx.check(ok, f"{pid}.mock-freeze-at-edge", f.site, f"{q}.freeze", found="; ".join(sorted({f"{tstr(s.target)} <- {tstr(s.value)} if {tstr(py_guard(s)[1]) if py_guard(s) is not True and py_guard(s)[0] == 'atom' else py_guard(s)}" for _, s in sts})) or "no store",
                  required="when the clock edge is observed the mock is frozen until the effects of this cycle were applied")
    # validators: each result signal gets the validation of its own argument
    f = Fn(ctx.repo, MM, "MethodMock.validate_arguments_process", pid)
    sets = [(ex, e) for ex in f.exs for e in ex.of(Effect) if pmatch("Q_s.set(Q_r, async_mock_def_helper(self, self.validate_arguments, Q_a))", e.call)]
    ok = bool(sets)
    for ex, e in sets:
        m = pmatch("Q_s.set(Q_r, async_mock_def_helper(self, self.validate_arguments, Q_a))", e.call)
        lp = loops(e)
        b = lp[1][0][0] if len(lp) == 2 else None
        ok = ok and b is not None and m["a"][0] == "i" and m["a"][2] == b and m["r"] == ("i", ("i", pat("self.adapter.validators"), b), ("c", 1))
    ctx.check(ok, f"{pid}.mock-validators", f.site, "MethodMock.validate_arguments_process.results", found="; ".join(sorted({tstr(e.call)[:140] for _, e in sets})) or "no result driven",
              required="validator result k is the mock's validate_arguments applied to validator argument k (same k)")
