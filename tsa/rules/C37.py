"""C37 - shifters and rotators: bit-provenance evaluation of the returned wiring against the documented index maps,
for every width 1..6 / vector length 1..4 x element width 1..3 and every offset 0..width (the range for which the
functions are documented).  The delegation structure (vector variants -> generic vector shift -> scalar shift of the
transposed bit planes) is evaluated through, not assumed."""

from .common import *
from ..prov import Bits, Evaluator, ShapeV, WiringError, const_bits
from ..pyfacts import Fn

SH = "transactron/utils/amaranth_ext/shifter.py"
FUNCS = "transactron/utils/amaranth_ext/functions.py"
WIDTHS = range(1, 7)
VEC = [(n, w) for n in range(1, 5) for w in range(1, 4)]


def _a(w):
    return Bits(("a", i) for i in range(w))


def _b(w):
    return Bits(("b", i) for i in range(w))


PH = Bits((("ph",),))


def _scalar_ref(name, w, k):
    a, b = _a(w), _b(w)
    if name == "generic_shift_right":
        return Bits((a + b)[i + k] for i in range(w))
    if name == "generic_shift_left":
        return Bits((b + a)[w + i - k] for i in range(w))
    if name == "shift_right":
        return Bits(a[i + k] if i + k < w else ("ph",) for i in range(w))
    if name == "shift_left":
        return Bits(a[i - k] if i >= k else ("ph",) for i in range(w))
    if name == "rotate_right":
        return Bits(a[(i + k) % w] for i in range(w))
    if name == "rotate_left":
        return Bits(a[(i - k) % w] for i in range(w))
    raise KeyError(name)


def _scalar_args(name, w, k):
    if name.startswith("generic"):
        return [_a(w), _b(w), k]
    if name.startswith("shift"):
        return [_a(w), k, PH]
    return [_a(w), k]


def scalar(ctx):
    ev = Evaluator(ctx.repo, SH, "C37", extra_modules=(FUNCS,))
    for name in ("generic_shift_right", "generic_shift_left", "shift_right", "shift_left", "rotate_right", "rotate_left"):
        fn = Fn(ctx.repo, SH, name, "C37")
        bad, n = None, 0
        try:
            for w in WIDTHS:
                # the offset as a python integer and as a signal-shaped value of every width that can hold it (the result
                # must not depend on how wide the offset signal is); the operand unsigned and signed
                variants = [(k, rep, sg) for k in range(w + 1) for rep in [None] + list(range(max(1, k.bit_length()), max(1, w.bit_length()) + 2)) for sg in (False, True)]
                for k, rep, sg in variants:
                    ref = _scalar_ref(name, w, k)
                    n += 1
                    args = _scalar_args(name, w, k)
                    if rep is not None:
                        args = [const_bits(k, rep) if (isinstance(a, int) and not isinstance(a, Bits)) else a for a in args]
                    if sg:
                        sv = Bits(args[0])
                        sv.signed = True
                        args = [sv] + args[1:]
                    try:
                        got = ev.call(name, args, {})
                    except WiringError as e:
                        bad = f"width {w}, offset {k} ({'int' if rep is None else str(rep) + '-bit signal'}), {'signed' if sg else 'unsigned'} operand: the generator fails: {e}"
                        break
                    if not isinstance(got, Bits) or tuple(got) != tuple(ref):
                        bad = f"width {w}, offset {k}: result bits wired to {list(got) if isinstance(got, Bits) else got!r}, documented {list(ref)}"
                        break
                if bad:
                    break
            # default placeholder of the scalar shifts is the constant 0
            if bad is None and name in ("shift_right", "shift_left"):
                got = ev.call(name, [_a(3), 1], {})
                ref = [0 if x == ("ph",) else x for x in _scalar_ref(name, 3, 1)]
                n += 1
                if list(got) != ref:
                    bad = f"default placeholder: {list(got)}, documented {ref}"
        except NotEvaluable as e:
            raise AnalysisError("C37.scalar", fn.site, f"{name}: outside the bit-provenance fragment: {e}")
        ctx.check(bad is None, "C37.scalar-wiring", fn.site, name, found=(bad or "agrees") + f"  [{n} (width, offset) pairs evaluated]",
                  required="every result bit is wired to the documented source bit (value / fill vector / placeholder) for widths 1..6 and offsets 0..width")
        # the property says "every offset": an offset signal wider than needed can carry values above the width
        if name.startswith("generic") or bad is not None:
            continue
        big, nb = None, 0
        try:
            for w in (1, 2, 3, 5):
                for rep in range(1, 4):
                    for k in range(w + 1, 2 ** rep):
                        nb += 1
                        args = [const_bits(k, rep) if (isinstance(a, int) and not isinstance(a, Bits)) else a for a in _scalar_args(name, w, k)]
                        try:
                            got = ev.call(name, args, {})
                        except WiringError as e:
                            big = big or f"width {w}, {rep}-bit offset {k}: the generator fails: {e}"
                            continue
                        if big is None and (not isinstance(got, Bits) or tuple(got) != tuple(_scalar_ref(name, w, k))):
                            big = f"width {w}, {rep}-bit offset signal carrying {k}: result bits {list(got) if isinstance(got, Bits) else got!r}, documented {list(_scalar_ref(name, w, k))}"
        except NotEvaluable as e:
            raise AnalysisError("C37.scalar", fn.site, f"{name}: outside the bit-provenance fragment: {e}")
        ctx.check(big is None, "C37.offsets-beyond-width", fn.site, name, found=(big or "agrees") + f"  [{nb} (width, offset) pairs with offset > width evaluated]",
                  required="for an offset above the width a shift returns the placeholder in every bit, a rotation rotates by offset modulo the width")


def _elems(tag, n, w):
    return [Bits((tag, j, i) for i in range(w)) for j in range(n)]


def _vec_ref(name, n, w, k):
    a, b = _elems("a", n, w), _elems("b", n, w)
    ph = Bits(("ph", i) for i in range(w))
    if name == "generic_shift_vec_right":
        return [(a + b)[j + k] for j in range(n)]
    if name == "generic_shift_vec_left":
        return [(b + a)[n + j - k] for j in range(n)]
    if name == "shift_vec_right":
        return [a[j + k] if j + k < n else ph for j in range(n)]
    if name == "shift_vec_left":
        return [a[j - k] if j >= k else ph for j in range(n)]
    if name == "rotate_vec_right":
        return [a[(j + k) % n] for j in range(n)]
    if name == "rotate_vec_left":
        return [a[(j - k) % n] for j in range(n)]
    raise KeyError(name)


def _vec_args(name, n, w, k):
    ph = Bits(("ph", i) for i in range(w))
    if name.startswith("generic"):
        return [_elems("a", n, w), _elems("b", n, w), k]
    if name.startswith("shift"):
        return [_elems("a", n, w), k, ph]
    return [_elems("a", n, w), k]


def vector(ctx):
    for name in ("generic_shift_vec_right", "generic_shift_vec_left", "shift_vec_right", "shift_vec_left", "rotate_vec_right", "rotate_vec_left"):
        fn = Fn(ctx.repo, SH, name, "C37")
        bad, cnt = None, 0
        try:
            for plain in (True, False):
                ev = Evaluator(ctx.repo, SH, "C37", extra_modules=(FUNCS,))
                ev.plain_shapes = plain
                for n, w in VEC:
                    for k in range(n + 1):
                        ref = _vec_ref(name, n, w, k)
                        cnt += 1
                        try:
                            got = ev.call(name, _vec_args(name, n, w, k), {})
                        except WiringError as e:
                            bad = f"length {n}, element width {w}, offset {k}: the generator fails: {e}"
                            break
                        if not isinstance(got, list) or [tuple(x) for x in got] != [tuple(x) for x in ref]:
                            bad = f"{'plain' if plain else 'structured'} elements, length {n}, element width {w}, offset {k}: got {got!r}, documented {ref!r}"
                            break
                    if bad:
                        break
                if bad:
                    break
                # default placeholder: an all-zero element
                if name in ("shift_vec_right", "shift_vec_left"):
                    got = ev.call(name, [_elems("a", 2, 2), 1], {})
                    ref = [Bits((0, 0)) if x[0][0] == "ph" else x for x in _vec_ref(name, 2, 2, 1)]
                    cnt += 1
                    if [tuple(x) for x in got] != [tuple(x) for x in ref]:
                        bad = f"default placeholder ({'plain' if plain else 'structured'}): got {got!r}, documented {ref!r}"
                        break
        except NotEvaluable as e:
            raise AnalysisError("C37.vector", fn.site, f"{name}: outside the bit-provenance fragment: {e}")
        ctx.check(bad is None, "C37.vector-wiring", fn.site, name, found=(bad or "agrees") + f"  [{cnt} (shape kind, length, element width, offset) tuples evaluated]",
                  required="every element of the result is, bit for bit, the documented element of data / fill / placeholder for lengths 1..4, element widths 1..3, offsets 0..length, plain and structured elements")


def check(ctx):
    ctx.use(SH, FUNCS)
    scalar(ctx)
    vector(ctx)


MUTANTS = [
    ("gsr-operands-swapped", SH, "return Cat(value1, value2).bit_select(offset, len(value1))", "return Cat(value2, value1).bit_select(offset, len(value1))"),
    ("gsr-width-off-by-one", SH, "return Cat(value1, value2).bit_select(offset, len(value1))", "return Cat(value1, value2).bit_select(offset, len(value1) - 1)"),
    ("gsr-word-select", SH, "return Cat(value1, value2).bit_select(offset, len(value1))", "return Cat(value1, value2).word_select(offset, len(value1))"),
    ("gsl-no-outer-reverse", SH, "return Cat(*reversed(generic_shift_right(Cat(*reversed(value1)), Cat(*reversed(value2)), offset)))", "return generic_shift_right(Cat(*reversed(value1)), Cat(*reversed(value2)), offset)"),
    ("gsl-fill-not-reversed", SH, "return Cat(*reversed(generic_shift_right(Cat(*reversed(value1)), Cat(*reversed(value2)), offset)))", "return Cat(*reversed(generic_shift_right(Cat(*reversed(value1)), value2, offset)))"),
    ("shift-left-uses-right", SH, "    return generic_shift_left(value, placeholder.replicate(len(value)), offset)", "    return generic_shift_right(value, placeholder.replicate(len(value)), offset)"),
    ("shift-right-fills-with-value", SH, "    return generic_shift_right(value, placeholder.replicate(len(value)), offset)", "    return generic_shift_right(value, value, offset)"),
    ("rotate-left-uses-right", SH, "    return generic_shift_left(value, value, offset)", "    return generic_shift_right(value, value, offset)"),
    ("rotate-right-fills-zero", SH, "    return generic_shift_right(value, value, offset)", "    return generic_shift_right(value, C(0, len(Value.cast(value))), offset)"),
    ("vec-bits2-from-data1", SH, "    bits2 = [Cat(val[i] for val in data2_values) for i in range(width)]", "    bits2 = [Cat(val[i] for val in data1_values) for i in range(width)]"),
    ("vec-planes-misaligned", SH, "shifted_bits = [generic_shift_right(b1, b2, offset) for b1, b2 in zip(bits1, bits2)]", "shifted_bits = [generic_shift_right(b1, b2, offset) for b1, b2 in zip(bits1, reversed(bits2))]"),
    ("vec-left-data-not-reversed", SH, "generic_shift_vec_right(list(reversed(data1)), list(reversed(data2)), offset)", "generic_shift_vec_right(list(data1), list(reversed(data2)), offset)"),
    ("vec-left-result-not-reversed", SH, "    return list(reversed(generic_shift_vec_right(list(reversed(data1)), list(reversed(data2)), offset)))  # type: ignore", "    return list(generic_shift_vec_right(list(reversed(data1)), list(reversed(data2)), offset))  # type: ignore"),
    ("rotate-vec-left-uses-right", SH, "    return generic_shift_vec_left(data, data, offset)  # type: ignore", "    return generic_shift_vec_right(data, data, offset)  # type: ignore"),
    ("shift-vec-right-fills-with-data", SH, "    return generic_shift_vec_right(data, [placeholder] * len(data), offset)  # type: ignore", "    return generic_shift_vec_right(data, data, offset)  # type: ignore"),
    ("vec-recombine-wrong-index", SH, "shifted_values = [Cat(bits[i] for bits in shifted_bits) for i in range(len(data1))]", "shifted_values = [Cat(bits[len(data1) - 1 - i] for bits in shifted_bits) for i in range(len(data1))]"),
    ("shift-vec-default-placeholder-ones", SH, "            placeholder = C(0, shape)", "            placeholder = C(-1, shape)"),
]
