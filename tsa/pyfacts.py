"""Helpers for rules over ordinary python functions (manager, schedulers, ...)."""

from __future__ import annotations

from typing import Callable, Iterable, Optional

from .front import AnalysisError, FuncInfo, Repo
from .logic import f_and, f_not, f_or, to_formula
from .stage import Effect, Extraction, Fact, HwAssign, Jump, Raise, Return, Store, extract_all
from .term import Term, canon_binders, tstr


class Fn:
    """All static configurations of one python function."""

    def __init__(self, repo: Repo, rel: str, qualname: str, rule: str = "py", enter: tuple = ()):
        try:
            self.fi: FuncInfo = repo.func(rel, qualname)
        except AnalysisError as e:
            raise AnalysisError(rule, e.site, e.reason)
        self.rel = rel
        self.qualname = qualname
        self.exs: list[Extraction] = extract_all(repo, self.fi, enter=enter)

    @property
    def site(self) -> str:
        return self.fi.site

    def facts(self, typ, pred: Optional[Callable[[Fact], bool]] = None) -> list:
        """Facts of type `typ` over all configurations, de-duplicated by (site, payload, frames)."""
        seen = set()
        out = []
        for ex in self.exs:
            for f in ex.of(typ):
                if pred is not None and not pred(f):
                    continue
                key = canon_binders((f.site, _payload(f), f.frames))
                if key in seen:
                    continue
                seen.add(key)
                out.append((ex, f))
        return out

    def reach(self, typ, pred: Callable[[Fact], bool]):
        """Path condition of a fact: OR over the configurations in which it is emitted of the conjunction of the
        python-level decisions of that configuration (captures early-return idioms that frames do not show)."""
        alts = []
        for ex in self.exs:
            if any(pred(f) for f in ex.of(typ)):
                parts = []
                for t, v in ex.config:
                    g = to_formula(t)
                    parts.append(g if v else f_not(g))
                alts.append(f_and(*parts))
        return f_or(*alts)

    def only(self, typ, pred, rule: str, what: str):
        fs = self.facts(typ, pred)
        if not fs:
            raise AnalysisError(rule, self.site, f"{what} not found in {self.qualname} (anchor vanished)", missing=f"{what} in {self.qualname}")
        return fs

    def param(self, idx: int) -> Term:
        a = self.fi.node.args
        names = [x.arg for x in a.posonlyargs + a.args]
        if idx >= len(names):
            raise AnalysisError("py", self.site, f"{self.qualname} has no parameter #{idx}")
        if names[idx] == "self":
            return ("self",)
        return ("p", self.fi.qualname, idx, names[idx])


def _payload(f: Fact):
    d = dict(f.__dict__)
    for k in ("seq", "frames", "site", "config", "callid", "end_seq", "bodyid"):
        d.pop(k, None)
    return tuple((k, v if isinstance(v, (tuple, str, int, type(None))) else repr(v)) for k, v in sorted(d.items()))


def cname(*terms: Term) -> str:
    """Printable name of terms with binder ids renamed in order of occurrence (stable across configurations)."""
    c = canon_binders(tuple(terms))
    return ",".join(tstr(x) for x in c)


def py_guard(f: Fact):
    """Conjunction of the python-level tests (static guards, match arms) under which `f` is reached."""
    parts = []
    for fr in f.frames:
        if fr[0] == "py":
            g = to_formula(fr[1])
            parts.append(g if fr[2] else f_not(g))
        elif fr[0] == "match":
            subj, pat, prev = fr[1], fr[2], fr[3]
            parts.extend(f_not(("atom", ("match", subj, p))) for p in prev)
            if pat != ("n", "_"):
                parts.append(("atom", ("match", subj, pat)))
    return f_and(*parts)


def loops(f: Fact) -> list[tuple]:
    """[(binders, iterable term)] innermost last."""
    return [(fr[1], fr[2]) for fr in f.frames if fr[0] == "for"]


def loop_iters(f: Fact) -> list[Term]:
    return [fr[2] for fr in f.frames if fr[0] == "for"]


def is_call_to(t: Term, name: str) -> bool:
    return t[0] == "call" and (t[1] == ("n", name) or (t[1][0] == "a" and t[1][2] == name))
