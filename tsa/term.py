"""Terms: hashable tuples denoting symbolic values of the analysed program.

    ('c', v)                      constant
    ('n', name)                   global / builtin / unresolved free name
    ('self',)                     the receiver
    ('p', fn, idx, name)          parameter `idx` of function `fn`
    ('a', base, attr)             attribute
    ('i', base, index)            subscript;  ('slice', lo, hi, step)
    ('call', f, args, kwargs)     call (args tuple, kwargs tuple of (name, term), name None = **)
    ('op', o, *args)              operator (commutative ones flattened + sorted)
    ('b', id, iter)               bound variable ranging over `iter`
    ('obj', id)                   object created by a constructor call in the analysed function
    ('arg', bodyid)               argument record of a method body
    ('ret', callid)               result of a method call / of a non-inlined effectful call
    ('lc', kind, elt, gens)       comprehension, gens = ((binder, iter, conds), ...)
    ('lam', id)                   closure (lambda / local def), see Extractor.closures
    ('list'|'tuple'|'set', *xs)   displays; ('dict', ((k, v), ...)); ('star', x)
    ('ife', c, a, b)              conditional expression
    ('fstr', *parts)              f-string
    ('loopvar', name, loopid)     name rebound inside a loop (opaque afterwards)
    ('unk', text)                 expression kind not modelled
    ('v', name, id)               local variable holding the result of an opaque call (Extraction.vardefs[id])
"""

from __future__ import annotations

from typing import Callable, Iterator

Term = tuple

COMMUTATIVE = {"&", "|", "^", "+", "*", "==", "!=", "and", "or", "is"}
ASSOCIATIVE = {"&", "|", "^", "+", "*", "and", "or"}


def C(v) -> Term:
    return ("c", v)


def is_const(t: Term, v=None) -> bool:
    return t[0] == "c" and (v is None or (t[1] == v and type(t[1]) is type(v)))


def _key(t) -> str:
    return repr(t)


def _is_sequence(t) -> bool:
    """Sequence-valued terms: `+` on them is concatenation (order matters)."""
    return t[0] in ("tuple", "list", "lc", "fstr", "star") or (t[0] == "c" and isinstance(t[1], (str, bytes)))


def mk_op(o: str, *args: Term) -> Term:
    if o in ASSOCIATIVE:
        flat: list[Term] = []
        for a in args:
            if a[0] == "op" and a[1] == o:
                flat.extend(a[2:])
            else:
                flat.append(a)
        args = tuple(flat)
    if o in COMMUTATIVE and not (o in ("+", "*") and any(_is_sequence(a) for a in args)):
        args = tuple(sorted(args, key=_key))
    if o == ">":
        return ("op", "<", args[1], args[0])
    if o == ">=":
        return ("op", "<=", args[1], args[0])
    if o == "isnot":
        return ("op", "not", mk_op("is", *args))
    if o == "notin":
        return ("op", "not", ("op", "in", *args))
    if o == "not" and args[0][0] == "op" and args[0][1] == "not":
        return args[0][2]
    return ("op", o, *args)


def attr(base: Term, name: str) -> Term:
    return ("a", base, name)


def index(base: Term, i: Term) -> Term:
    return ("i", base, i)


def call(f: Term, *args: Term, **kw: Term) -> Term:
    return ("call", f, tuple(args), tuple(sorted(kw.items())))


def subterms(t) -> Iterator[Term]:
    """All sub-terms, pre-order (including t)."""
    if not isinstance(t, tuple):
        return
    if t and isinstance(t[0], str):
        yield t
    for x in t:
        if isinstance(x, tuple):
            yield from subterms(x)


def contains(t: Term, pred: Callable[[Term], bool]) -> bool:
    return any(pred(s) for s in subterms(t))


def mentions(t: Term, sub: Term) -> bool:
    return any(s == sub for s in subterms(t))


def subst(t, mapping: dict) -> Term:
    if not isinstance(t, tuple):
        return t
    if t in mapping:
        return mapping[t]
    new = tuple(subst(x, mapping) for x in t)
    if new and new[0] == "op" and isinstance(new[1], str):
        return mk_op(new[1], *new[2:])
    return new


def rewrite(t, f: Callable[[Term], "Term | None"]) -> Term:
    """Bottom-up rewrite; `f` returns a replacement or None."""
    if not isinstance(t, tuple):
        return t
    new = tuple(rewrite(x, f) for x in t)
    if new and new[0] == "op" and isinstance(new[1], str):
        new = mk_op(new[1], *new[2:])
    r = f(new) if new and isinstance(new[0], str) else None
    return new if r is None else r


def canon_binders(t: Term) -> Term:
    """Rename binder / object ids in order of first occurrence (alpha-normal form)."""
    bmap: dict = {}

    def go(x):
        if not isinstance(x, tuple):
            return x
        if x and x[0] == "b":
            key = x[1]
            if key not in bmap:
                bmap[key] = f"b{len(bmap)}"
            return ("b", bmap[key], go(x[2]))
        return tuple(go(y) for y in x)

    return go(t)


# ---------------------------------------------------------------------------
# printing


def tstr(t, depth: int = 0) -> str:
    if not isinstance(t, tuple) or not t:
        return repr(t)
    k = t[0]
    if depth > 12:
        return "..."
    d = depth + 1
    if k == "c":
        return repr(t[1])
    if k == "n":
        return t[1]
    if k == "self":
        return "self"
    if k == "p":
        return f"{t[3]}"
    if k == "a":
        return f"{tstr(t[1], d)}.{t[2]}"
    if k == "i":
        return f"{tstr(t[1], d)}[{tstr(t[2], d)}]"
    if k == "slice":
        return ":".join("" if x == ("c", None) else tstr(x, d) for x in t[1:])
    if k == "call":
        args = [tstr(a, d) for a in t[2]] + [(f"{n}=" if n else "**") + tstr(v, d) for n, v in t[3]]
        return f"{tstr(t[1], d)}({', '.join(args)})"
    if k == "op":
        o = t[1]
        if o in ("~", "not", "neg", "pos"):
            sym = {"~": "~", "not": "not ", "neg": "-", "pos": "+"}[o]
            return f"{sym}{tstr(t[2], d)}"
        return "(" + f" {o} ".join(tstr(a, d) for a in t[2:]) + ")"
    if k == "b":
        return f"${t[1]}"
    if k == "obj":
        return f"#{t[1]}"
    if k == "arg":
        return f"arg@{t[1]}"
    if k == "ret":
        return f"ret@{t[1]}"
    if k == "lc":
        gens = " ".join(
            f"for ${b[1] if b[0] == 'b' else tstr(b, d)} in {tstr(it, d)}" + "".join(f" if {tstr(c, d)}" for c in conds)
            for b, it, conds in t[3]
        )
        br = {"list": "[]", "gen": "()", "set": "{}", "dict": "{}"}[t[1]]
        return f"{br[0]}{tstr(t[2], d)} {gens}{br[1]}"
    if k in ("list", "tuple", "set"):
        br = {"list": "[]", "tuple": "()", "set": "{}"}[k]
        return br[0] + ", ".join(tstr(x, d) for x in t[1:]) + br[1]
    if k == "dict":
        return "{" + ", ".join(f"{tstr(a, d)}: {tstr(b, d)}" for a, b in t[1]) + "}"
    if k == "star":
        return "*" + tstr(t[1], d)
    if k == "ife":
        return f"({tstr(t[2], d)} if {tstr(t[1], d)} else {tstr(t[3], d)})"
    if k == "lam":
        return f"<closure {t[1]}>"
    if k == "fstr":
        return "f'" + "".join(str(x[1]) if x[0] == "c" else "{" + tstr(x, d) + "}" for x in t[1:]) + "'"
    if k == "loopvar":
        return f"<{t[1]} after loop>"
    if k == "unk":
        return f"<?{t[1]}>"
    if k == "v":
        return f"{t[1]}"
    if k == "branchfn":
        return f"<branch of condition {t[1]}>"
    return repr(t)
