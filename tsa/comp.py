"""Hardware-component view over extractions: bodies, guards, decision tables."""

from __future__ import annotations

from dataclasses import dataclass
from typing import Iterable, Optional

from .front import AnalysisError, Repo
from .logic import (
    Undecided,
    atoms_of,
    evalf,
    f_and,
    f_not,
    f_or,
    fstr,
    to_formula,
    valuations,
)
from .stage import (
    BodyDef,
    Extraction,
    Fact,
    Helper,
    HwAssign,
    MethodCall,
    Relation,
    Return,
    Store,
    Submodule,
    Unmodelled,
    extract_all,
)
from .term import C, Term, attr, mentions, subst, subterms, tstr

RUN_GATED = "gated"  # comb / sync / any named domain: all guards incl. body run
AV = "av"  # av_comb: all guards except AvoidedIf (body run)
TOP = "top"  # top_comb: unguarded


def domain_class(dom: Term) -> str:
    if dom == ("c", "av_comb"):
        return AV
    if dom == ("c", "top_comb"):
        return TOP
    return RUN_GATED


def is_sync(dom: Term) -> bool:
    return dom[0] != "c" or dom[1] not in ("comb", "av_comb", "top_comb")


class Component:
    """All static configurations of one generator function (default `elaborate`) of a class."""

    def __init__(self, repo: Repo, relpath: str, clsname: str, func: str = "elaborate", rule: str = "comp"):
        self.repo = repo
        self.relpath = relpath
        self.clsname = clsname
        self.ci = repo.cls(relpath, clsname)
        fi = repo.find_method(self.ci, func)
        if fi is None:
            raise AnalysisError(rule, self.ci.site, f"{clsname}.{func} vanished")
        self.fi = fi
        self.configs: list[Extraction] = extract_all(repo, fi)
        self._init: Optional[list[Extraction]] = None

    @property
    def site(self) -> str:
        return self.fi.site

    # -- __init__ information ------------------------------------------------
    @property
    def init_configs(self) -> list[Extraction]:
        if self._init is None:
            fi = self.repo.find_method(self.ci, "__init__")
            self._init = extract_all(self.repo, fi) if fi is not None else []
        return self._init

    def init_attr(self, name: str, last: bool = False) -> Optional[Term]:
        """Constructor term stored into self.<name> by __init__ (first configuration that stores it; with `last`,
        the last one - the configuration in which no optional-argument default was substituted)."""
        for ex in (reversed(self.init_configs) if last else self.init_configs):
            # constructor parameters stored as attributes: `self.depth = depth` lets terms be read in terms of self.depth
            pmap = {}
            for st in ex.of(Store):
                if st.target[0] == "a" and st.target[1] == ("self",) and st.value[0] == "p":
                    pmap.setdefault(st.value, st.target)
            for st in ex.of(Store):
                if st.target == ("a", ("self",), name):
                    v = st.value
                    o = ex.obj(v)
                    return subst(o.ctor if o is not None else v, pmap)
        return None

    def require_modelled(self, rule: str):
        for ex in self.configs:
            for u in ex.unmodelled:
                raise AnalysisError(rule, u.site, f"unmodelled statement {u.what} in {self.clsname}.{self.fi.node.name}")


# ---------------------------------------------------------------------------
# bodies


def bodies(ex: Extraction) -> list[BodyDef]:
    return ex.of(BodyDef)


def body_by_id(ex: Extraction, bodyid: int) -> BodyDef:
    for b in ex.of(BodyDef):
        if b.bodyid == bodyid:
            return b
    raise KeyError(bodyid)


def strip_index(owner: Term) -> Term:
    """self.read_req[$i] -> self.read_req"""
    if owner[0] == "i" and owner[2][0] == "b":
        return owner[1]
    return owner


def find_body(ex: Extraction, name: str) -> Optional[BodyDef]:
    """Body whose owner is self.<name> (or self.<name>[binder] for def_methods)."""
    want = ("a", ("self",), name)
    for b in ex.of(BodyDef):
        if b.owner == want or strip_index(b.owner) == want:
            return b
    # one definition shared by several methods: `for method in (self.a, self.b): @def_method(m, method, ...)`
    for b in ex.of(BodyDef):
        if b.owner[0] == "b" and b.owner[2][0] in ("tuple", "list") and want in b.owner[2][1:]:
            return b
    return None


def need_body(ex: Extraction, name: str, rule: str, site: str) -> BodyDef:
    b = find_body(ex, name)
    if b is None:
        raise AnalysisError(rule, site, f"no body defined for method '{name}'")
    return b


def run_atom(b: BodyDef) -> Term:
    return attr(b.owner, "run")


def facts_in_body(ex: Extraction, b: BodyDef, typ=None) -> list[Fact]:
    out = []
    for f in ex.facts:
        if f is b:
            continue
        if any(fr[0] == "body" and fr[1] == b.bodyid for fr in f.frames):
            if typ is None or isinstance(f, typ):
                out.append(f)
    return out


def enclosing_body(ex: Extraction, f: Fact) -> Optional[BodyDef]:
    for fr in reversed(f.frames):
        if fr[0] == "body":
            return body_by_id(ex, fr[1])
    return None


# ---------------------------------------------------------------------------
# guards


def frame_formula(ex: Extraction, fr: tuple, dclass: str):
    k = fr[0]
    if k in ("for", "py", "switch", "fsm", "cond", "try", "finally", "match", "while", "except"):
        return True
    if dclass == TOP:
        return True
    if k == "body":
        if dclass == AV:
            return True
        return ("atom", run_atom(body_by_id(ex, fr[1])))
    if k == "avoid":
        if dclass == AV:
            return True
        return to_formula(fr[1])
    if k == "branch":
        if dclass == AV:
            return True
        return ("atom", ("run", ("branch", fr[1], fr[2])))
    if k == "if":
        return to_formula(fr[1])
    if k == "elif":
        return f_and(*[f_not(to_formula(p)) for p in fr[2]], to_formula(fr[1]))
    if k == "else":
        return f_and(*[f_not(to_formula(p)) for p in fr[1]])
    if k == "case":
        swid, pats, prev = fr[1], fr[2], fr[3]
        return f_and(*[f_not(("atom", ("case", swid, p))) for p in prev], ("atom", ("case", swid, pats)))
    if k == "default":
        swid, prev = fr[1], fr[3]
        return f_and(*[f_not(("atom", ("case", swid, p))) for p in prev])
    if k == "state":
        return ("atom", ("state", fr[1], fr[2]))
    if k == "with":
        return ("atom", ("with", fr[1]))
    return ("atom", ("frame", fr))


def guard_of(ex: Extraction, f: Fact, dclass: Optional[str] = None):
    if dclass is None:
        dclass = domain_class(f.domain) if isinstance(f, HwAssign) else RUN_GATED
    return f_and(*[frame_formula(ex, fr, dclass) for fr in f.frames])


def static_guards(f: Fact) -> list[tuple[Term, bool]]:
    return [(fr[1], fr[2]) for fr in f.frames if fr[0] == "py"]


def binders_of(f: Fact) -> list[Term]:
    out = []
    for fr in f.frames:
        if fr[0] == "for":
            out.extend(fr[1])
    return out


# ---------------------------------------------------------------------------
# target matching with binder unification


def unify(pattern: Term, term: Term, variables: set, env: Optional[dict] = None) -> Optional[dict]:
    """Match `pattern` (whose binder terms in `variables` are variables) against `term`."""
    env = {} if env is None else env
    if pattern in variables:
        if pattern in env:
            return env if env[pattern] == term else None
        env[pattern] = term
        return env
    if not isinstance(pattern, tuple) or not isinstance(term, tuple):
        return env if pattern == term else None
    if len(pattern) != len(term):
        return None
    for p, t in zip(pattern, term):
        if isinstance(p, tuple):
            if unify(p, t, variables, env) is None:
                return None
        elif p != t:
            return None
    return env


IDX = ("b", "IDX", ("c", "index"))


@dataclass
class Writer:
    fact: HwAssign
    guard: object
    rhs: Term
    part: Optional[tuple]  # None: whole target; else ('field', name) / ('index', term) / ('bits', off, w)
    binding: dict


def writers_of(ex: Extraction, target: Term, sync=False) -> list[Writer]:
    """Assignments to `target` or parts of it.  Binders of the writer's own loops are unified with the
    index terms of `target` (so `x[$i]` written in a loop matches target `x[IDX]`).

    `sync`: False (default) = combinational domains only, True = clocked domains only, "any" = both.  The default is
    deliberately not "any": a rule about a wire must not be satisfied by a registered (one cycle late) assignment."""
    out = []
    for f in ex.of(HwAssign):
        if f.lhs is None:
            continue
        if sync != "any" and sync is not None and is_sync(f.domain) != sync:
            continue
        variables = set(binders_of(f))
        for lhs, part in _lhs_parts(f.lhs):
            b = unify(lhs, target, variables, {})
            if b is None:
                continue
            g = guard_of(ex, f)
            rhs = f.rhs
            if b:
                rhs = subst(rhs, b)
                g = _subst_formula(g, b)
                part = None if part is None else subst(part, b)
            out.append(Writer(f, g, rhs, part, b))
            break
    return out


def _lhs_parts(lhs: Term):
    """Yield (container, part) pairs: the lhs itself and every container of which it is a part."""
    yield lhs, None
    cur = lhs
    parts = []
    while True:
        if cur[0] == "a":
            parts.insert(0, ("field", cur[2]))
            cur = cur[1]
        elif cur[0] == "i":
            parts.insert(0, ("index", cur[2]))
            cur = cur[1]
        elif cur[0] == "call" and cur[1][0] == "a" and cur[1][2] in ("bit_select", "word_select"):
            parts.insert(0, ("bits",) + tuple(cur[2]))
            cur = cur[1][1]
        else:
            return
        yield cur, tuple(parts)


def _subst_formula(f, b: dict):
    if f is True or f is False:
        return f
    if f[0] == "atom":
        return to_formula(subst(f[1], b)) if f[1][0] in ("op", "call", "a", "i", "obj", "c") else ("atom", subst(f[1], b))
    return (f[0],) + tuple(_subst_formula(x, b) for x in f[1:])


# ---------------------------------------------------------------------------
# decision tables

HOLD = ("hold",)


@dataclass
class Table:
    target: Term
    atoms: list
    rows: list  # (valuation dict, Writer | None)
    writers: list

    def winners(self, **_):
        return {id(w): w for _, w in self.rows if w is not None}.values()

    def select(self, cond) -> list:
        """Rows whose valuation satisfies formula `cond`."""
        return [(v, w) for v, w in self.rows if evalf(cond, _extend(v, cond))]

    def render(self, limit: int = 12) -> list[str]:
        out = []
        for v, w in self.rows[:limit]:
            vs = ",".join(f"{tstr(a)}={int(x)}" for a, x in v.items())
            out.append(f"{vs} -> {'hold' if w is None else tstr(w.rhs)}")
        return out


def _extend(v: dict, cond) -> dict:
    missing = [a for a in atoms_of(cond) if a not in v]
    if missing:
        raise Undecided("condition mentions atoms outside the table: " + ", ".join(tstr(a) for a in missing))
    return v


def state_constraint(atoms: list):
    """FSM states of one FSM are mutually exclusive."""
    groups: dict = {}
    for a in atoms:
        if a[0] == "state":
            groups.setdefault(a[1], []).append(a)

    def ok(v: dict) -> bool:
        for g in groups.values():
            if sum(1 for a in g if v[a]) > 1:
                return False
        return True

    return ok if groups else None


def decision_table(ex: Extraction, target: Term, sync: Optional[bool] = None, whole_only: bool = True) -> Table:
    ws = writers_of(ex, target, sync)
    if whole_only:
        ws = [w for w in ws if w.part is None]
    ws.sort(key=lambda w: w.fact.seq)
    atoms: list = []
    for w in ws:
        atoms_of(w.guard, atoms)
    rows = []
    for v in valuations(atoms, state_constraint(atoms)):
        win = None
        for w in ws:
            if evalf(w.guard, v):
                win = w
        rows.append((v, win))
    return Table(target, atoms, rows, ws)


# ---------------------------------------------------------------------------
# misc helpers used by rules


def objs_in(t: Term) -> list[Term]:
    out = []
    for s in subterms(t):
        if s[0] == "obj" and s not in out:
            out.append(s)
    return out


def ctor_of(ex: Extraction, t: Term) -> Optional[Term]:
    o = ex.obj(t)
    return o.ctor if o is not None else None


def ctor_kwarg(ctor: Term, name: str) -> Optional[Term]:
    if ctor[0] != "call":
        return None
    for k, v in ctor[3]:
        if k == name:
            return v
    return None


def relations(ex: Extraction, kind: str) -> list[Relation]:
    return [r for r in ex.of(Relation) if r.kind == kind]


def calls_in_body(ex: Extraction, b: BodyDef) -> list[MethodCall]:
    return facts_in_body(ex, b, MethodCall)  # type: ignore[return-value]
