"""Bit-provenance evaluation (F-PROV): analyser-side evaluation of generation-level expressions that only *move* bits
(Cat, slicing, bit_select, reversed, replicate, comprehensions over ranges, calls of sibling helpers).  A bit vector
is a tuple of *sources* (opaque labels such as ('a', 3), or the constants 0/1); the result says, for a concrete width
and a concrete offset, which source bit every result bit is wired to.  The offset of `bit_select` is concrete in every
evaluation: a signal offset selects, per value, exactly the wiring computed for that value."""

from __future__ import annotations

import ast
from typing import Optional

from .front import AnalysisError, Repo
from .logic import NotEvaluable
from .pyfacts import Fn
from .stage import Return
from .term import Term, tstr


class WiringError(Exception):
    """The evaluated generator would fail at elaboration time (e.g. IndexError on a bit or element index)."""


class Bits(tuple):
    """Tuple of bit sources, least significant first."""

    def __repr__(self):
        return "Bits" + tuple.__repr__(self)


class ShapeV:
    """Abstract shape: `plain` shapes are amaranth Shapes, others are layout-like (callable casts)."""

    def __init__(self, width: int, plain: bool = True):
        self.width = width
        self.plain = plain


def const_bits(v: int, w: Optional[int] = None) -> Bits:
    if w is None:
        w = max(1, v.bit_length()) if v >= 0 else max(1, (~v).bit_length() + 1)
    return Bits(((v >> i) & 1) for i in range(w))


def as_bits(x) -> Bits:
    if isinstance(x, Bits):
        return x
    if isinstance(x, bool):
        return const_bits(int(x), 1)
    if isinstance(x, int):
        return const_bits(x)
    raise NotEvaluable(f"not a bit vector: {x!r}")


def _flatten_cat(x, out: list):
    if isinstance(x, Bits):
        out.extend(x)
    elif isinstance(x, int):
        out.extend(as_bits(x))
    elif isinstance(x, (list, tuple)):
        for y in x:
            _flatten_cat(y, out)
    else:
        raise NotEvaluable(f"Cat operand {x!r}")


class Evaluator:
    def __init__(self, repo: Repo, rel: str, rule: str, extra_modules: tuple = (), max_depth: int = 8):
        self.repo = repo
        self.rel = rel
        self.rule = rule
        self.extra = extra_modules
        self.max_depth = max_depth
        self._fns: dict = {}
        self.calls = 0
        self.builtins: dict = {}  # name -> f(evaluator, args, kwargs): functions modelled by the analyser instead of evaluated

    # -- function level ------------------------------------------------------------------------------------------
    def fn(self, name: str) -> Optional[Fn]:
        if name not in self._fns:
            found = None
            for rel in (self.rel,) + tuple(self.extra):
                mod = self.repo.modules.get(rel)
                if mod is None:
                    continue
                try:
                    self.repo.func(rel, name)
                except AnalysisError:
                    continue
                found = Fn(self.repo, rel, name, self.rule)
                break
            self._fns[name] = found
        return self._fns[name]

    def call(self, name: str, args: list, kwargs: dict, depth: int = 0):
        # a name called inside function F resolves to the nested function F.name first (closures), then to the module level
        fn = None
        for scope in reversed(getattr(self, "_scopes", [])):
            fn = self.fn(f"{scope}.{name}")
            if fn is not None:
                break
            parent = scope.rsplit(".", 1)[0] if "." in scope else None
            if parent and parent.endswith(name) is False:
                fn = self.fn(f"{parent}.{name}") if parent != scope else None
                if fn is not None:
                    break
        if fn is None:
            fn = self.fn(name)
        if fn is None:
            raise NotEvaluable(f"call of unknown function {name}")
        if not hasattr(self, "_scopes"):
            self._scopes = []
        self._scopes.append(fn.fi.qualname)
        try:
            return self._call_fn(fn, name, args, kwargs, depth)
        finally:
            self._scopes.pop()

    def _call_fn(self, fn, name: str, args: list, kwargs: dict, depth: int = 0):
        if depth > self.max_depth:
            raise NotEvaluable(f"call depth exceeded at {name}")
        self.calls += 1
        a = fn.fi.node.args
        names = [x.arg for x in a.posonlyargs + a.args]
        defaults = dict(zip(names[len(names) - len(a.defaults):], a.defaults))
        env = {}
        for i, n in enumerate(names):
            p = ("p", fn.fi.qualname, i, n)
            if i < len(args):
                env[p] = args[i]
            elif n in kwargs:
                env[p] = kwargs[n]
            elif n in defaults:
                try:
                    env[p] = ast.literal_eval(defaults[n])
                except Exception:
                    raise NotEvaluable(f"default of {name}.{n}")
            else:
                raise NotEvaluable(f"missing argument {n} of {name}")
        last = None
        for ex in fn.exs:
            try:
                if not all(bool(self.ev(t, env, ex, depth)) == v for t, v in ex.config):
                    continue
            except NotEvaluable as e:
                last = e
                continue
            rets = [r for r in ex.of(Return) if r.callid is None]
            if len(rets) != 1:
                raise NotEvaluable(f"{name}: {len(rets)} returns in the selected configuration")
            return self.ev(rets[0].value, env, ex, depth)
        raise NotEvaluable(f"{name}: no configuration applies" + (f" ({last})" if last else ""))

    # -- term level ----------------------------------------------------------------------------------------------
    def ev(self, t: Term, env: dict, ex=None, depth: int = 0):
        if t in env:
            return env[t]
        k = t[0]
        if k == "c":
            return t[1]
        if k == "n":
            return t[1]  # a global name stands for itself (Shape, ValueLike, ...)
        if k == "v":
            d = ex.vardefs.get(t[2]) if ex is not None else None
            if d is None:
                raise NotEvaluable(f"opaque variable {t[1]}")
            return self.ev(d, env, ex, depth)
        if k in ("list", "tuple"):
            out = []
            for x in t[1:]:
                if x[0] == "star":
                    out.extend(self._iter(self.ev(x[1], env, ex, depth)))
                else:
                    out.append(self.ev(x, env, ex, depth))
            return out
        if k == "lc":
            return self._lc(t, env, ex, depth)
        if k == "i":
            base = self.ev(t[1], env, ex, depth)
            if t[2][0] == "slice":
                lo, hi, st = (None if x == ("c", None) else self.ev(x, env, ex, depth) for x in t[2][1:4])
                r = base[slice(lo, hi, st)]
                return Bits(r) if isinstance(base, Bits) else list(r)
            i = self.ev(t[2], env, ex, depth)
            if not isinstance(i, int):
                raise NotEvaluable(f"index {tstr(t[2])}")
            try:
                r = base[i]
            except IndexError:
                raise WiringError(f"index {i} out of range in {tstr(t)} (length {len(base)})")
            return Bits((r,)) if isinstance(base, Bits) else r
        if k == "a":
            base = self.ev(t[1], env, ex, depth)
            if isinstance(base, ShapeV) and t[2] == "width":
                return base.width
            raise NotEvaluable(f"attribute {tstr(t)}")
        if k == "op":
            return self._op(t, env, ex, depth)
        if k == "ife":
            return self.ev(t[2] if self.ev(t[1], env, ex, depth) else t[3], env, ex, depth)
        if k == "call":
            return self._call(t, env, ex, depth)
        raise NotEvaluable(tstr(t))

    def _iter(self, v):
        if isinstance(v, Bits):
            return [Bits((b,)) for b in v]
        if isinstance(v, (list, tuple, range)):
            return list(v)
        raise NotEvaluable(f"iteration over {v!r}")

    def _lc(self, t, env, ex, depth):
        _, kind, elt, gens = t
        out = []

        def rec(gi, env):
            if gi == len(gens):
                out.append(self.ev(elt, env, ex, depth))
                return
            b, it, conds = gens[gi]
            src = b[2] if b[0] == "b" else it
            for x in self._iter(self.ev(src, env, ex, depth)):
                e2 = dict(env)
                e2[b] = x
                if all(self.ev(c, e2, ex, depth) for c in conds):
                    rec(gi + 1, e2)

        rec(0, env)
        if kind == "dict":
            return {k: v for k, v in out}
        return out

    def _op(self, t, env, ex, depth):
        o = t[1]
        xs = [self.ev(x, env, ex, depth) for x in t[2:]]
        if o == "is":
            return xs[0] is xs[1] or (xs[0] is None and xs[1] is None)
        if o == "isnot":
            return not (xs[0] is xs[1])
        if o == "not":
            return not xs[0]
        if o in ("and", "or"):
            return all(xs) if o == "and" else any(xs)
        if o == "*" and len(xs) == 2 and any(isinstance(x, list) for x in xs) and any(isinstance(x, int) for x in xs):
            return xs[0] * xs[1]
        if o == "+" and all(isinstance(x, list) for x in xs):
            r = []
            for x in xs:
                r = r + x
            return r
        if all(isinstance(x, int) and not isinstance(x, Bits) for x in xs):
            if o in ("+", "*"):
                r = xs[0]
                for x in xs[1:]:
                    r = r + x if o == "+" else r * x
                return r
            if len(xs) == 2:
                a, b = xs
                tbl = {"-": lambda: a - b, "//": lambda: a // b, "%": lambda: a % b, "==": lambda: a == b, "!=": lambda: a != b, "<": lambda: a < b, "<=": lambda: a <= b, ">": lambda: a > b, ">=": lambda: a >= b, "<<": lambda: a << b, ">>": lambda: a >> b, "**": lambda: a ** b if 0 <= b <= 64 else (_ for _ in ()).throw(NotEvaluable("exponent"))}
                if o in tbl:
                    return tbl[o]()
            if o == "neg":
                return -xs[0]
        if any(isinstance(x, Bits) for x in xs) and all(isinstance(x, (Bits, int)) for x in xs):
            from . import bitalg

            return bitalg.op(o, xs)
        raise NotEvaluable(f"operator {o} in {tstr(t)}")

    def _call(self, t, env, ex, depth):
        f, targs, tkw = t[1], t[2], t[3]
        args = []
        for x in targs:
            if x[0] == "star":
                args.extend(self._iter(self.ev(x[1], env, ex, depth)))
            else:
                args.append(self.ev(x, env, ex, depth))
        kwargs = {k: self.ev(v, env, ex, depth) for k, v in tkw}
        if f[0] == "n":
            n = f[1]
            if n == "Cat":
                out: list = []
                for x in args:
                    _flatten_cat(x, out)
                return Bits(out)
            if n == "len" and len(args) == 1:
                return len(args[0])
            if n == "range":
                return list(range(*args))
            if n == "reversed" and len(args) == 1:
                return list(reversed(self._iter(args[0])))
            if n in ("list", "tuple") and len(args) == 1:
                return self._iter(args[0])
            if n == "zip":
                return [list(x) for x in zip(*[self._iter(a) for a in args])]
            if n == "enumerate" and len(args) == 1:
                return [[i, x] for i, x in enumerate(self._iter(args[0]))]
            if n == "isinstance" and len(args) == 2:
                if args[1] == "Shape":
                    return isinstance(args[0], ShapeV) and args[0].plain
                if args[1] == "int":
                    return isinstance(args[0], int) and not isinstance(args[0], (Bits, bool))
                if args[1] in ("Value", "ValueCastable", "ValueLike") or (isinstance(args[1], list) and "Value" in args[1]):
                    return isinstance(args[0], Bits)
                raise NotEvaluable("isinstance")
            if n in ("C", "Const") and args:
                w = args[1] if len(args) > 1 else None
                if isinstance(w, ShapeV):
                    w = w.width
                return const_bits(args[0], w)
            if n == "cast" and len(args) == 2:
                return args[1]
            if n == "shape_of" and len(args) == 1:
                v = args[0]
                if isinstance(v, Bits):
                    return ShapeV(len(v), getattr(self, "plain_shapes", True))
                raise NotEvaluable("shape_of a non-value")
            if n == "const_of" and len(args) == 2 and isinstance(args[1], ShapeV):
                return const_bits(args[0], args[1].width)
            if n == "ceil_log2" and len(args) == 1 and isinstance(args[0], int) and not isinstance(args[0], Bits):
                return (args[0] - 1).bit_length() if args[0] > 0 else 0
            if n == "bits_for" and len(args) == 1 and isinstance(args[0], int) and not isinstance(args[0], Bits):
                return max(1, args[0].bit_length()) if args[0] >= 0 else (-args[0]).bit_length() + 1
            if n in ("min", "max") and args and all(isinstance(a, int) for a in args):
                return (min if n == "min" else max)(args)
            if n == "Shape":
                return "Shape"
            if n == "Mux" and len(args) == 3:
                from . import bitalg

                return bitalg.mux(*args)
            if n in self.builtins:
                return self.builtins[n](self, args, kwargs)
            return self.call(n, args, kwargs, depth + 1)
        if f == ("a", ("n", "Value"), "cast") and len(args) == 1:
            return as_bits(args[0])
        if f == ("a", ("n", "Shape"), "cast") and len(args) == 1:
            if isinstance(args[0], ShapeV):
                return args[0]
            if isinstance(args[0], int):
                return ShapeV(args[0])
            raise NotEvaluable("Shape.cast")
        if f[0] == "a":
            recv = self.ev(f[1], env, ex, depth)
            m = f[2]
            if isinstance(recv, int) and not isinstance(recv, (Bits, bool)) and m == "bit_length" and not args:
                return recv.bit_length()
            if isinstance(recv, ShapeV):
                if m == "from_bits" and len(args) == 1:
                    return const_bits(args[0], recv.width)
                if m == "const" and len(args) == 1:
                    return const_bits(args[0], recv.width)
            if isinstance(recv, Bits):
                if m == "bit_select" and len(args) == 2:
                    off, w = args
                    if isinstance(off, Bits):
                        from . import bitalg

                        off = bitalg.concrete(off)  # a signal-shaped offset with known value
                        if off is not None and off < 0:
                            raise WiringError("bit_select with a negative offset")
                    if not isinstance(off, int) or not isinstance(w, int):
                        raise NotEvaluable("bit_select with a non-concrete offset")
                    return Bits(recv[off + i] if 0 <= off + i < len(recv) else 0 for i in range(w))
                if m == "word_select" and len(args) == 2:
                    off, w = args
                    if isinstance(off, Bits):
                        from . import bitalg

                        off = bitalg.concrete(off)
                    if not isinstance(off, int) or not isinstance(w, int):
                        raise NotEvaluable("word_select with a non-concrete offset")
                    return Bits(recv[off * w + i] if 0 <= off * w + i < len(recv) else 0 for i in range(w))
                if m == "replicate" and len(args) == 1:
                    return Bits(tuple(recv) * args[0])
                if m in ("as_unsigned", "as_signed", "as_value") and not args:
                    if m == "as_value":
                        return recv
                    r = Bits(recv)  # same bits, reinterpreted
                    if m == "as_signed":
                        r.signed = True
                    return r
                if m in ("any", "bool", "all") and not args:
                    from . import bitalg

                    return bitalg.reduce_all(recv) if m == "all" else bitalg.reduce_any(recv)
                if m == "shape" and not args:
                    return ShapeV(len(recv))
        if f[0] in ("v", "p", "i"):
            recv = self.ev(f, env, ex, depth)
            if isinstance(recv, ShapeV) and len(args) == 1:
                return as_bits(args[0])  # layout cast: a view of the same bits
            if callable(recv):
                return recv(*args)
        raise NotEvaluable(tstr(t))
