"""Bit-vector evaluation of extracted terms (analyser-side semantics of the Amaranth operators used by the
one-expression helpers).  Values are python integers (two's complement, unbounded); widths are tracked only where
they matter (`~`, slices, `len`)."""

from __future__ import annotations

from typing import Optional

from .logic import NotEvaluable
from .term import Term, tstr


class BV:
    __slots__ = ("v", "w")

    def __init__(self, v: int, w: Optional[int]):
        self.v = v
        self.w = w


def mask(w: int) -> int:
    return (1 << w) - 1


def ev(t: Term, env: dict) -> BV:
    """env: atom term -> BV."""
    if t in env:
        return env[t]
    k = t[0]
    if k == "c" and isinstance(t[1], int):
        return BV(int(t[1]), None)
    if k == "op":
        o = t[1]
        if o in ("&", "|", "^", "+", "*"):
            xs = [ev(x, env) for x in t[2:]]
            v = xs[0].v
            for x in xs[1:]:
                v = {"&": v & x.v, "|": v | x.v, "^": v ^ x.v, "+": v + x.v, "*": v * x.v}[o]
            ws = [x.w for x in xs if x.w is not None]
            w = max(ws) + (1 if o == "+" else 0) if ws else None
            if o == "*":
                w = sum(ws) if ws else None
            return BV(v, w)
        if o == "-":
            a, b = ev(t[2], env), ev(t[3], env)
            ws = [x.w for x in (a, b) if x.w is not None]
            return BV(a.v - b.v, max(ws) + 1 if ws else None)
        if o == "neg":
            a = ev(t[2], env)
            return BV(-a.v, a.w + 1 if a.w is not None else None)
        if o == "~":
            a = ev(t[2], env)
            if a.w is None:
                raise NotEvaluable("~ of a value of unknown width")
            if a.v < 0:
                return BV(~a.v, a.w)  # signed operand: stays signed
            return BV(~a.v & mask(a.w), a.w)
        if o in ("<<", ">>"):
            a, b = ev(t[2], env), ev(t[3], env)
            if not 0 <= b.v < 64:
                raise NotEvaluable("shift amount")
            if o == "<<":
                return BV(a.v << b.v, a.w + b.v if a.w is not None else None)
            return BV(a.v >> b.v, a.w)
        if o in ("==", "!=", "<", "<="):
            a, b = ev(t[2], env).v, ev(t[3], env).v
            return BV(int({"==": a == b, "!=": a != b, "<": a < b, "<=": a <= b}[o]), 1)
    if k == "i":
        a = ev(t[1], env)
        sl = t[2]
        if sl[0] == "slice":
            lo = 0 if sl[1] == ("c", None) else ev(sl[1], env).v
            if sl[3] != ("c", None):
                raise NotEvaluable("strided slice")
            if sl[2] == ("c", None):
                if a.w is None:
                    raise NotEvaluable("open slice of unknown width")
                hi = a.w
            else:
                hi = ev(sl[2], env).v
                if hi < 0:
                    if a.w is None:
                        raise NotEvaluable("negative slice bound of unknown width")
                    hi = a.w + hi
            w = max(hi - lo, 0)
            return BV((a.v >> lo) & mask(w), w)
        i = ev(sl, env).v
        return BV((a.v >> i) & 1, 1)
    if k == "call":
        f = t[1]
        if f == ("n", "len") and len(t[2]) == 1:
            a = ev(t[2][0], env)
            if a.w is None:
                raise NotEvaluable("len of unknown width")
            return BV(a.w, None)
        if f == ("n", "Mux") and len(t[2]) == 3:
            c = ev(t[2][0], env)
            return ev(t[2][1], env) if c.v else ev(t[2][2], env)
        if f in (("n", "C"), ("n", "Const")) and t[2]:
            v = ev(t[2][0], env)
            w = ev(t[2][1], env).v if len(t[2]) > 1 else None
            return BV(v.v, w)
        if f[0] == "a" and f[2] in ("as_unsigned",) and not t[2]:
            a = ev(f[1], env)
            if a.w is None:
                raise NotEvaluable("as_unsigned of unknown width")
            return BV(a.v & mask(a.w), a.w)
        if f[0] == "a" and f[2] in ("any", "bool") and not t[2]:
            return BV(int(ev(f[1], env).v != 0), 1)
        if f == ("call", ("a", ("n", "Value"), "cast"), (), ()):
            pass
        if f == ("a", ("n", "Value"), "cast") and len(t[2]) == 1:
            return ev(t[2][0], env)
    raise NotEvaluable(tstr(t))
