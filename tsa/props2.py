"""Per-property texts for MANIFEST.json, library components and utilities (merged into props.PROPS)."""

T_RTL = "custom static analysis over the ast: staged-DSL extraction of the generator, last-writer decision tables and propositional/linear normal forms compared with a reference model in roles"
T_PLUMB = "custom static analysis over the ast: staged-DSL extraction, wiring / index-agreement / effect-set rules on the extracted hardware facts"
T_EVAL = "custom static analysis over the ast: extraction of the returned expression per static configuration, then analyser-side abstract evaluation (bit-vector / bit-provenance / integer semantics of the Amaranth operators, nothing from /repo is imported or run) against the documented function on bounded widths"
T_PATH = "custom static analysis over the ast: python-level path facts (guards, loops, early exits, raises) per static configuration, propositional guard equivalence by truth table"

PROPS2 = {
    "C14": {
        "level": "FIFO wrapper: ready iff w_rdy / r_rdy, enable pulses run-gated, data in/out wiring, no other drive. BasicFifo: allocator and memory of "
        "`depth` rows, transparent synchronous read port, pointer mirrors, write at the end pointer with alloc(count=1) unconditional, read frees "
        "unconditionally and addresses the *next* start pointer, peek effect-free and ready iff non-empty, clear clears the allocator; read/write exclusive; "
        "plus all CircularAllocator obligations of C27 (counter algebra, clear wins, pointer updates) and mod_add (branch test evaluated for mod 1..64, "
        "bounded agreement with the modular sum).",
        "undecided": "exactly-once, in-order delivery over all histories (follows on paper from the tables; memory semantics trusted).",
        "technique": T_RTL,
    },
    "C15": {
        "level": "WideFifo over both static configurations: level algebra (level' = level + written - read, clear last writer), readiness, the write "
        "validator, min(count, level, read_width) idiom, prefix masks, row/column pointer updates through mod_incr / modular add, read/peek sibling "
        "agreement (same data path, peek effect-free), write lane addressing, read/write exclusive.",
        "undecided": "element order over all histories; memory semantics (trusted).",
        "technique": T_RTL,
    },
    "C16": {
        "level": "Stack: next-level decision table over (write, read, clear), readiness classes (not full / not empty), write and read addressing relative "
        "to the level, transparent read port that is enabled in every cycle, peek effect-free nonexclusive with read's value, read/write exclusive.",
        "undecided": "LIFO order over all histories (paper induction from the tables).",
        "technique": T_RTL,
    },
    "C18": {
        "level": "Call structure of the transformers and connectors: ConnectTrans is one transaction calling both methods with crossed data, "
        "CrossbarConnectTrans connects all pairs, MethodMap composes i_transform/target/o_transform in that order, MethodFilter calls the target only under "
        "the condition (default result first, single_caller), MethodProduct calls all targets and combines, NonexclusiveWrapper forwards argument and result "
        "from a nonexclusive method, create() helpers provide the built method and hand every option on to the constructor.",
        "undecided": "behaviour over readiness histories (delegated to C03/C04/C17); user-supplied map functions.",
        "technique": T_PLUMB,
    },
    "C19": {
        "level": "Serializer: id pushed at request = port index, response served only to the port matching the FIFO head, id FIFO depth, clear fan-out. "
        "ArgumentsToResultsZipper: argument and result paths paired by label, both FIFOs read together.",
        "undecided": "matching over all interleavings (follows from C14/C17 on paper).",
        "technique": T_PLUMB,
    },
    "C20": {
        "level": "Semaphore, complete at register-transfer level: count' table over (acquire, release, clear), readiness formulas by bounded agreement, "
        "count range, clear as last writer, acquire/release exclusive.",
        "undecided": "nothing beyond the trusted base (histories follow by induction on the table).",
        "technique": T_RTL,
    },
    "C21": {
        "level": "MemoryBank over all 8 static configurations: request/response protocol layer (valid flag tables, zipper/overflow buffer readiness), "
        "port index agreement, address/data/mask wiring, delay-register shapes, write granularity consistency. Known finding F5 (granular forwarding select).",
        "undecided": "that the returned data equals the contents of an ideal memory for every history (timing of the overflow buffer).",
        "technique": T_RTL,
    },
    "C22": {
        "level": "AsyncMemoryBank: read port address <- argument and data -> result of the same port index, write port wiring incl. mask under granularity, "
        "enable pulses run-gated. The wiring is the whole mechanism.",
        "undecided": "Amaranth memory semantics (trusted).",
        "technique": T_PLUMB,
    },
    "C23": {
        "level": "Multiport memories, well-formedness: delay-register shapes (address vs. data; F1 fixed), read/write port index agreement, skip-own-index "
        "maps of the XOR/ILVT banks, transparency control, init placement, granularity consistency (known finding F4). Timing coherence by an "
        "age inference over the extracted netlist (every value = user port signals of some age; clocked assignment and inner memory read add "
        "one cycle): inner write ports get address/enable/data of one age, inner read ports are addressed unregistered, forwarding multiplexers "
        "compare a one-cycle-old read address with a write address of age k and forward that write's data of age k under its enable, every "
        "write age not yet visible through the inner read has a forwarding path (coverage), same-cycle forwarding exists exactly for "
        "transparent_for members, the output depends on read signals of age exactly 1, hold multiplexer and hold register. Port objects "
        "(registration, enable default 1, shapes, options), named-submodule index spaces, table decoding (Encoder iff one-hot coded), and the "
        "one-hot coding read as tables for 2..4 write ports: a write makes the writer win every bank pair, every pair has complementary tests, "
        "feedback ports addressed by the writer's own address, vector widths.",
        "undecided": "equivalence with an ideal multiport memory over all histories (the obligations are the steps of the inductive argument, their "
        "composition is not machine-checked); per-element identity inside per-port lists beyond the index rules.",
        "technique": T_PLUMB,
    },
    "C24": {
        "level": "ContentAddressableMemory: the match masks of read/write/remove are sibling expressions over the same key/valid arrays, encoder output "
        "paired with its valid bit, effects guarded by the match, push uses the free-slot encoder, state-changing methods exclusive.",
        "undecided": "lookup results over all histories.",
        "technique": T_PLUMB,
    },
    "C25": {
        "level": "PriorityEncoderAllocator: the encoder is fed the free mask, way i is ready iff encoder valid i and returns encoder output i, alloc clears "
        "exactly the returned bit, free sets the argument's bit, replace, writer order (free after alloc), peek effect-free, clear, exclusive alloc/free.",
        "undecided": "no double allocation over all histories (rests on C38 for the encoder).",
        "technique": T_PLUMB,
    },
    "C26": {
        "level": "PreservedOrderAllocator: used-count algebra, shift-down idiom on free (index agreement), order output, delegation of free to free_idx, "
        "exclusive state-changing methods.",
        "undecided": "order over all histories.",
        "technique": T_RTL,
    },
    "C27": {
        "level": "CircularAllocator over all 5 static configurations: occupancy counter range and update (allocated + alloc - free), clear as last writer, "
        "run-gated count pulses, readiness by bounded agreement, validators present exactly when configured and equivalent to no overflow/underflow, pointer "
        "updates through mod_add with the right maximum, returned identifiers consecutive from the pointer; mod_add itself (branch test evaluated for "
        "mod 1..64; masked sum == modular sum on every modulus that selects it; wrap cases cover mod..mod+max_incr-1).",
        "undecided": "ring order over all histories (paper induction from these).",
        "technique": T_RTL,
    },
    "C28": {
        "level": "PipelineBuilder plumbing: stage/connector index agreement, forwarded field sets, clear fan-out to every connector, liveness transfer function.",
        "undecided": "ordering, losslessness and the computed values of a built pipeline.",
        "technique": T_PLUMB,
    },
    "C29": {
        "level": "Stream adapters, complete at register-transfer level: source valid/payload driven from the method call, ready gating; sink read ready iff valid, "
        "ready pulsed while read runs, peek effect-free nonexclusive.",
        "undecided": "nothing beyond the trusted base.",
        "technique": T_RTL,
    },
    "C30": {
        "level": "InputSampler and OutputBuffer: the trigger logic is evaluated to a symbolic normal form over all 8 static configurations and compared with "
        "the reference table (complete at this level).",
        "undecided": "nothing beyond the trusted base.",
        "technique": T_RTL,
    },
    "C31": {
        "level": "Counters and histograms: counter update per call, TaggedCounter tag selection (index = matched tag value; F2 fixed), histogram bucket arms and "
        "bounds, neutral defaults, disabled-metrics path emits nothing; the one-hot classification of a tag set is evaluated per tag value (power of two >= 1); "
        "min / max registers of the histogram are sample-wide.",
        "undecided": "numeric consistency of histogram statistics over all sample sequences.",
        "technique": T_RTL,
    },
    "C32": {
        "level": "Latency measurers: epoch counter update, start/stop pairing by FIFO order or slot address, truncated subtraction at exactly the epoch width, "
        "one histogram sample per stop lane, slot count from the last constructor configuration.",
        "undecided": "that the measured value equals the elapsed cycles for every history.",
        "technique": T_RTL,
    },
    "C33": {
        "level": "Event log: sample order of the capture process equals the consume order, schema order equals record layout (header first), decoder "
        "pairing and arity, sampler site index/order in both modes with values normalised by the schema (evaluated for widths 0-4), emit is context-sensitive and emits nothing when "
        "disabled, top-level emit registers the site, statics kept in their JSON form and tuple fields decoded to tuples, the debug wrapper of the generated route "
        "only reads the design and records every site.",
        "undecided": "per-cycle faithfulness over histories.",
        "technique": T_PLUMB,
    },
    "C34": {
        "level": "Hardware logs and assertions: name<->level table, gated vs ungated trigger registration, assertions negated at ERROR level, simulation "
        "process order; on_error exactly when a reported record of the cycle has level >= ERROR and after all records of the cycle were reported; the formatter is "
        "total over levels; reports known finding F40 (errors outside the display filter are not watched).",
        "undecided": "per-cycle exactness.",
        "technique": T_PLUMB,
    },
    "C35": {
        "level": "Profiler: control dependence of the running / locked entries on run and the locking call, one count per (cycle, id), sampling order agreement "
        "between the generated signals and the reader.",
        "undecided": "equality with what actually ran (needs C04).",
        "technique": T_PLUMB,
    },
    "C36": {
        "level": "extract/clear_lowest_set_bit and the four mask_* helpers: the returned expression is evaluated (analyser-side bit-vector semantics) for every "
        "value of widths 1..6 against the documented function; mod_incr / mod_add: per static configuration, for every modulus that selects it, bounded "
        "agreement with the modular result and the masking shortcut only for powers of two; sum/or/and/min/max reduction table (operator, neutral element), "
        "binary_min polarity, popcount width, mux case table for selectors 0..7 and switch_value case order; count_trailing_zeros / count_leading_zeros "
        "(through the nested recursive halving function) and cyclic_mask evaluated for every value of widths 1..8 against the documented function.",
        "undecided": "binary_tree_reduce's while loop (popcount and the sum/or/and reductions are decided up to it: operator, neutral element, operand list); "
        "widths above the bounds.",
        "technique": T_EVAL,
    },
    "C37": {
        "level": "All 12 shifters/rotators: the generator is evaluated through its delegation chain by bit-provenance abstract evaluation; every result bit "
        "(element) is wired to the documented source bit (element) of value / fill / placeholder for widths 1..6 (lengths 1..4 x element widths 1..3), every "
        "offset 0..width, plain and structured elements, default placeholders.",
        "undecided": "widths above the bound; offsets above the width (not documented).",
        "technique": T_EVAL,
    },
    "C38": {
        "level": "one_hot_mux: the returned expression is evaluated (mixed concrete select bits / labelled data bits) for 0..4 inputs, every select valuation, "
        "with and without default and priority, and must be wired to the documented input; every arm keeps the shape of its data (Amaranth's shape rules, signed and "
        "unsigned, widths 1-4); OneHotMux.create/elaborate pair select[i] with inputs[i]; Encoder / "
        "Decoder / PriorityEncoder case tables; Gray encoder and decoder (loop recurrence) evaluated for widths 1..6 (decoder inverts encoder); priority tree: "
        "leaf, split (halves, start indices, 0 < middle < len), merge (Case((1<<i)-1): lower[j] for j<i, upper[j-i] above) and root wiring; ring encoder: the "
        "inner encoder's input is evaluated for widths 1..5, every input/first/last, against the rotated circular interval [first,last), outputs rotated back "
        "modulo width; selecting network: merge index forms evaluated for group lengths 1..4 (stable merge: valid prefix of a, then b), counts, level plumbing, "
        "root wiring; create() helpers.",
        "undecided": "that the per-level obligations of the recursive tree and of the while-loop network compose to the documented function for every width "
        "(induction over levels is a paper argument); binary_tree_reduce's loop (or_value is taken as OR-reduction).",
        "technique": T_EVAL,
    },
    "C40": {
        "level": "assign, over all 242 static configurations: selection table (COMMON = intersection, LHS, RHS, ALL = union, explicit names), the recursion for "
        "a name is reached only when it is in both field sets (KeyError raises dominate), empty selection raises, recursion into lhs[name] / rhs[name] with the "
        "nested selection (mapping -> fields[name], list -> ALL, mode otherwise), leaf emits exactly one Value.cast(lhs).eq(Value.cast(rhs)) in that "
        "direction, singleton unwrapping only through one-field structures, shape comparison of the two assigned values dominates the statement, union branch "
        "(singleton mapping, member test, both other outcomes raise), assign_arg_fields table, Array proxies flattened to any depth.",
        "undecided": "equality of all selected fields after the statements for every nested layout (unfolding the recursion over layouts); Amaranth's own "
        "eq semantics.",
        "technique": T_PATH,
    },
    "C41": {
        "level": "transpose: result layout nests inner keys outside (lambda nesting read from the syntax tree), the produced value iterates inner keys outside "
        "and takes view[o][i], constant branch likewise, key order of the helper, mk_layout kinds, rejections, layout_keys; align_to/down_to_power_of_two, "
        "bits_from_int, neg, int_to_signed, signed_to_int: returned python-integer expression evaluated for all arguments in a bounded range against the "
        "documented function (float arithmetic in these integer helpers is a violation), and the two conversions are inverse for widths 1..6; make_hashable conversion table (mapping -> frozenset of pairs, iterable -> "
        "tuple in order, hashable -> itself).",
        "undecided": "arguments outside the bounds; hash/equality semantics of python objects (trusted).",
        "technique": T_EVAL,
    },
    "C42": {
        "level": "Complete transition relation of the manager's state (dependencies, cache, locked set): all 3 + 14 + 2 paths of add_dependency / "
        "get_optional_dependency / get_dependency: locked add raises and changes nothing, otherwise appends once and drops a cached value; a read locks exactly "
        "the lock_on_get keys on every path, absence test precedes cache and combine, cached value is the key's own entry, combine over all dependencies in "
        "insertion order, cache filled exactly for caching keys; get_dependency decides 'missing' on the key, never on the value; SimpleKey (0 -> default, 1 -> it, "
        "more -> error), ListKey returns a new list and is not cached, UnifierKey not cached; "
        "class flag table.",
        "undecided": "the induction over histories from the per-path obligations (paper step); user-defined key classes.",
        "technique": T_PATH,
    },
    "C43": {
        "level": "CallTrigger: one clock tick per trigger, every data-carrying call initialised before and disabled after it under the same test, sampled record "
        "(outputs, done) per call in order then plain values, result = outputs if done else None from the right slice; call = until_done over one-tick "
        "triggers (until_done quantifies over the call entries only), call_try = one trigger; enable/disable/set_enable; MethodMock: disabled first and re-enabled last each tick, pending effects run exactly "
        "under done once each, list cleared and freeze reset before re-enable, outputs recomputed only when done and not frozen, inside the mock context with "
        "effects dropped first and written to data_in without an intervening tick; effect registration.",
        "undecided": "the simulator's scheduling semantics (which process observes what when).",
        "technique": T_PATH,
    },
}
