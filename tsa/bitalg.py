"""Bit-level algebra on prov.Bits values whose sources are the constants 0/1 or opaque labels (analyser-side
semantics of the Amaranth operators: unsigned/signed extension, two's complement arithmetic on fully concrete
operands, per-bit simplification of &, |, ^ with constants)."""

from __future__ import annotations

from .logic import NotEvaluable


def signed(b) -> bool:
    return bool(getattr(b, "signed", False))


def mk(bits, sgn=False):
    from .prov import Bits

    r = Bits(bits)
    if sgn:
        r.signed = True
    return r


def concrete(b):
    """Integer value if every source is a constant, else None."""
    if not all(s in (0, 1) for s in b):
        return None
    v = 0
    for i, s in enumerate(b):
        v |= s << i
    if signed(b) and len(b) and b[-1] == 1:
        v -= 1 << len(b)
    return v


def from_int(v: int, w: int, sgn=False):
    return mk((((v >> i) & 1) for i in range(w)), sgn)


def extend(b, w: int):
    if len(b) >= w:
        return tuple(b)
    fill = b[-1] if signed(b) and len(b) else 0
    return tuple(b) + (fill,) * (w - len(b))


def bit_or(a, b):
    if a == 0:
        return b
    if b == 0:
        return a
    if a == 1 or b == 1:
        return 1
    if a == b:
        return a
    return ("or",) + tuple(sorted((a, b), key=repr))


def bit_and(a, b):
    if a == 0 or b == 0:
        return 0
    if a == 1:
        return b
    if b == 1:
        return a
    if a == b:
        return a
    return ("and",) + tuple(sorted((a, b), key=repr))


def bit_xor(a, b):
    if a == 0:
        return b
    if b == 0:
        return a
    if a == b:
        return 0
    if a == 1:
        return bit_not(b)
    if b == 1:
        return bit_not(a)
    return ("xor",) + tuple(sorted((a, b), key=repr))


def bit_not(a):
    if a in (0, 1):
        return 1 - a
    if isinstance(a, tuple) and a and a[0] == "not":
        return a[1]
    return ("not", a)


def as_bits(x):
    from .prov import Bits, const_bits

    if isinstance(x, Bits):
        return x
    if isinstance(x, bool):
        return const_bits(int(x), 1)
    if isinstance(x, int):
        if x < 0:
            return from_int(x, (~x).bit_length() + 1, True)
        return const_bits(x)
    raise NotEvaluable(f"not a value: {x!r}")


def op(o: str, xs: list):
    from .prov import Bits

    raw = xs
    xs = [as_bits(x) for x in xs]
    if o in ("<<", ">>") and len(xs) == 2:
        n = concrete(xs[1])
        if n is None or n < 0:
            raise NotEvaluable("shift by a symbolic amount")
        a = xs[0]
        by_const = isinstance(raw[1], int) and not isinstance(raw[1], Bits)
        fill = a[-1] if signed(a) and len(a) else 0
        if o == "<<":
            # constant amount: the result grows by n bits; signal amount: by 2**len(amount) - 1 bits
            grow = n if by_const else (1 << len(xs[1])) - 1
            bits = (0,) * n + tuple(a)
            return mk(bits + (fill,) * (len(a) + grow - len(bits)), signed(a))
        kept = tuple(a)[n:]
        if by_const:
            return mk(kept or ((fill,) if signed(a) else ()), signed(a))
        return mk(kept + (fill,) * (len(a) - len(kept)), signed(a))  # signal amount: same width, arithmetic for signed values
    if o in ("&", "|", "^"):
        r = xs[0]
        for y in xs[1:]:
            sg = signed(r) or signed(y)
            w = max(len(r) + (1 if sg and not signed(r) else 0), len(y) + (1 if sg and not signed(y) else 0))
            a, b = extend(r, w), extend(y, w)
            f = {"&": bit_and, "|": bit_or, "^": bit_xor}[o]
            r = mk((f(p, q) for p, q in zip(a, b)), sg)
        return r
    if o == "~":
        return mk((bit_not(s) for s in xs[0]), signed(xs[0]))
    vals = [concrete(x) for x in xs]
    if any(v is None for v in vals):
        raise NotEvaluable(f"arithmetic operator {o} on a value with symbolic bits")
    if o == "neg":
        return from_int(-vals[0], len(xs[0]) + 1, True)
    if o in ("+", "-"):
        sg = any(signed(x) for x in xs) or o == "-"
        w = max(len(x) for x in xs) + 1 + (1 if sg and not all(signed(x) for x in xs) else 0)
        r = vals[0]
        for v in vals[1:]:
            r = r + v if o == "+" else r - v
        return from_int(r, w, sg)
    if o in ("==", "!=", "<", "<=", ">", ">="):
        a, b = vals
        return mk((int({"==": a == b, "!=": a != b, "<": a < b, "<=": a <= b, ">": a > b, ">=": a >= b}[o]),))
    if o == "<<":
        return mk((0,) * vals[1] + tuple(xs[0]), signed(xs[0]))
    if o == ">>":
        return mk(tuple(xs[0])[vals[1]:] or ((xs[0][-1],) if signed(xs[0]) and len(xs[0]) else ()), signed(xs[0]))
    raise NotEvaluable(f"operator {o} on bit vectors")


def reduce_any(b):
    r = 0
    for s in b:
        r = bit_or(r, s)
    return mk((r,))


def reduce_all(b):
    r = 1
    for s in b:
        r = bit_and(r, s)
    return mk((r,))


def mux(c, a, b):
    c = as_bits(c)
    cv = concrete(reduce_any(c))
    if cv is None:
        raise NotEvaluable("Mux with a symbolic selector")
    a, b = as_bits(a), as_bits(b)
    sg = signed(a) or signed(b)
    w = max(len(a), len(b))
    return mk(extend(a if cv else b, w), sg)
