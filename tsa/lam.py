"""Body of a lambda / one-expression nested function as a term.

The extractor keeps closures opaque (`('lam', id)`) unless they are called at a place it can inline.  Predicates handed to
filter / filterfalse / sorted are never called in the analysed function, so rules that have an obligation about such a
predicate translate its body here: parameters become `('lp', i)`, free names are looked up in the scopes the closure was
created in (so a renamed local does not matter), everything else is translated structurally.  Expressions outside the
small fragment below give None (the rule then reports that it cannot decide)."""

from __future__ import annotations

import ast
from typing import Optional

from .stage import _BINOPS as _BIN, _CMPOPS as _CMP
from .term import mk_op


def closure_params(clo) -> list[str]:
    a = clo.node.args
    return [x.arg for x in a.posonlyargs + a.args]


def closure_expr(clo) -> Optional[ast.expr]:
    n = clo.node
    if isinstance(n, ast.Lambda):
        return n.body
    body = [s for s in n.body if not (isinstance(s, ast.Expr) and isinstance(s.value, ast.Constant))]
    if len(body) == 1 and isinstance(body[0], ast.Return) and body[0].value is not None:
        return body[0].value
    return None


def closure_cases(clo):
    """For a nested function of the form `if c1: return v1 ... return vn` (docstring and comments aside):
    (number of parameters, [(condition term or None, value term), ...]) or None."""
    n = clo.node
    if isinstance(n, ast.Lambda):
        t = closure_term(clo)
        return (t[0], [(None, t[1])]) if t is not None else None
    body = [s for s in n.body if not (isinstance(s, ast.Expr) and isinstance(s.value, ast.Constant))]
    out = []
    for s in body:
        if isinstance(s, ast.If) and not s.orelse and len(s.body) == 1 and isinstance(s.body[0], ast.Return) and s.body[0].value is not None:
            c = _expr_term(clo, s.test)
            v = _expr_term(clo, s.body[0].value)
            if c is None or v is None:
                return None
            out.append((c, v))
        elif isinstance(s, ast.Return) and s.value is not None and s is body[-1]:
            v = _expr_term(clo, s.value)
            if v is None:
                return None
            out.append((None, v))
        else:
            return None
    return len(closure_params(clo)), out


def _expr_term(clo, e):
    class _One:
        pass

    fake = _One()
    fake.node = ast.Lambda(args=clo.node.args, body=e)
    fake.scopes = clo.scopes
    t = closure_term(fake)
    return t[1] if t is not None else None


def closure_term(clo):
    """(number of parameters, body term) or None."""
    e = closure_expr(clo)
    if e is None:
        return None
    params = closure_params(clo)
    env = {p: ("lp", i) for i, p in enumerate(params)}

    def free(name):
        for sc in reversed(clo.scopes):
            if name in sc:
                return sc[name]
        return ("n", name)

    def tr(n, env):
        if isinstance(n, ast.Name):
            return env[n.id] if n.id in env else free(n.id)
        if isinstance(n, ast.Constant):
            return ("c", n.value)
        if isinstance(n, ast.Attribute):
            return ("a", tr(n.value, env), n.attr)
        if isinstance(n, ast.Subscript):
            return ("i", tr(n.value, env), tr(n.slice, env))
        if isinstance(n, ast.Tuple):
            return ("tuple",) + tuple(tr(x, env) for x in n.elts)
        if isinstance(n, ast.UnaryOp) and isinstance(n.op, ast.Not):
            return mk_op("not", tr(n.operand, env))
        if isinstance(n, ast.UnaryOp) and isinstance(n.op, ast.Invert):
            return mk_op("~", tr(n.operand, env))
        if isinstance(n, ast.BoolOp):
            return mk_op("and" if isinstance(n.op, ast.And) else "or", *[tr(v, env) for v in n.values])
        if isinstance(n, ast.BinOp) and type(n.op) in _BIN:
            return mk_op(_BIN[type(n.op)], tr(n.left, env), tr(n.right, env))
        if isinstance(n, ast.Compare) and len(n.ops) == 1 and type(n.ops[0]) in _CMP:
            return mk_op(_CMP[type(n.ops[0])], tr(n.left, env), tr(n.comparators[0], env))
        if isinstance(n, ast.Call) and not any(isinstance(a, ast.Starred) for a in n.args) and all(k.arg for k in n.keywords):
            return ("call", tr(n.func, env), tuple(tr(a, env) for a in n.args), tuple(sorted((k.arg, tr(k.value, env)) for k in n.keywords)))
        if isinstance(n, ast.GeneratorExp) and all(not g.is_async and isinstance(g.target, ast.Name) for g in n.generators):
            env2 = dict(env)
            gens = []
            for k, g in enumerate(n.generators):
                it = tr(g.iter, env2)
                env2[g.target.id] = ("lp", len(params) + k)
                gens.append((("lp", len(params) + k), it, tuple(tr(c, env2) for c in g.ifs)))
            return ("lc", "gen", tr(n.elt, env2), tuple(gens))
        raise _Outside(ast.dump(n)[:60])

    try:
        return len(params), tr(e, env)
    except _Outside:
        return None


class _Outside(Exception):
    pass
